#!/bin/bash
# one.sh <patch>...: apply each patch to a scratch worktree and run its property's quick check (must report a VIOLATION)
cd "$(dirname "$0")/.."
export GOFLAGS=-mod=mod GOPROXY=off GOSUMDB=off GOTOOLCHAIN=local
wt=$(mktemp -d /root/gvc-one-XXXXXX)
git -C /repo worktree add -q --detach "$wt/repo" HEAD || exit 2
for patch in "$@"; do
  prop=$(basename "$patch" | cut -d_ -f1)
  git -C "$wt/repo" checkout -q . ; git -C "$wt/repo" clean -qfd
  (cd /repo && find . -name contracts_verif.go) | while read f; do cp "/repo/$f" "$wt/repo/$f"; done
  git -C "$wt/repo" apply "$(readlink -f "$patch")" || { echo "SKIP $patch (does not apply)"; continue; }
  (cd "$wt/repo" && go build ./... ) || { echo "SKIP $patch (does not build)"; continue; }
  out=$(GVC_NORETRY=1 bin/gvc check -p "$prop" -f "${ONLYF:-}" -repo "$wt/repo" -evidence "$wt/evidence" 2>&1); rc=$?
  if [ $rc -eq 1 ] && echo "$out" | grep -q "^VIOLATION property=$prop"; then
    echo "CAUGHT $prop $(basename $patch): $(echo "$out" | grep '^VIOLATION' | sed 's/.*replays\///' | head -3 | tr '\n' ' ')"
  else
    echo "MISSED $prop $patch"
  fi
done
git -C /repo worktree remove --force "$wt/repo"; rm -rf "$wt"
