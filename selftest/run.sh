#!/bin/bash
# Must-fail corpus: every patch under selftest/mutants (named <property>_<what>.patch) and
# every kept seeded change under seeded/*/patch.diff must make the property's quick check
# report a VIOLATION. Uses a scratch worktree of /repo outside /repo and /verif, removed afterwards.
cd "$(dirname "$0")/.."
export GOFLAGS=-mod=mod GOPROXY=off GOSUMDB=off GOTOOLCHAIN=local
only="$1"
wt=$(mktemp -d /root/gvc-selftest-XXXXXX)
git -C /repo worktree add -q --detach "$wt/repo" HEAD || exit 2
# contracts under test are those of the working tree
src=${SELFTEST_CONTRACTS:-/repo}
sync_contracts() { (cd "$src" && find . -name contracts_verif.go) | while read f; do cp "$src/$f" "$wt/repo/$f"; done; }
fail=0; n=0
run_one() { # patch, property
  local patch="$1" prop="$2"
  git -C "$wt/repo" checkout -q . ; git -C "$wt/repo" clean -qfd; sync_contracts
  if ! git -C "$wt/repo" apply "$(readlink -f "$patch")" 2>/dev/null; then echo "SKIP  $patch (does not apply)"; return; fi
  if ! (cd "$wt/repo" && go build ./... 2>/dev/null); then echo "SKIP  $patch (does not build)"; return; fi
  n=$((n+1))
  out=$(GVC_NORETRY=1 bin/gvc check -p "$prop" -verif "$PWD" -repo "$wt/repo" -evidence "$wt/evidence" 2>&1); rc=$?
  if [ $rc -eq 1 ] && echo "$out" | grep -q "^VIOLATION property=$prop"; then
    echo "CAUGHT $prop $(basename $(dirname $patch))/$(basename $patch): $(echo "$out" | grep -c '^VIOLATION') violation lines"
  else
    echo "MISSED $prop $patch"; fail=$((fail+1))
  fi
}
# sanity: with retries off the unchanged tree must still pass every property a mutant is filed under
for prop in $(ls selftest/mutants/*.patch | xargs -n1 basename | cut -d_ -f1 | sort -u); do
  [ -n "$only" ] && [ "$only" != "$prop" ] && continue
  git -C "$wt/repo" checkout -q . ; git -C "$wt/repo" clean -qfd; sync_contracts
  if ! GVC_NORETRY=1 bin/gvc check -p "$prop" -verif "$PWD" -repo "$wt/repo" -evidence "$wt/evidence" >/dev/null 2>&1; then echo "BASELINE-FAILS $prop (without retries)"; fail=$((fail+1)); fi
done
for p in selftest/mutants/*.patch; do
  [ -e "$p" ] || continue
  prop=$(basename "$p" | cut -d_ -f1)
  [ -n "$only" ] && [ "$only" != "$prop" ] && continue
  run_one "$p" "$prop"
done
for d in seeded/*/; do
  [ -e "$d/patch.diff" ] || continue
  prop=$(python3 -c "import json,sys; print(json.load(open('$d/meta.json'))['property'])" 2>/dev/null)
  [ -n "$only" ] && [ "$only" != "$prop" ] && continue
  run_one "$d/patch.diff" "$prop"
done
git -C /repo worktree remove --force "$wt/repo"; rm -rf "$wt"
echo "selftest: $n mutants, $fail missed"
[ $fail -eq 0 ]
