package gofakes3

// Demonstration for finding D1 (C11/C09), fixed by "fix: ObjectRangeRequest.Range overflows ...".
import (
	"math"
	"testing"
)

func TestGvcFindingD1(t *testing.T) {
	o := &ObjectRangeRequest{Start: 1, End: math.MaxInt64}
	r, err := o.Range(2)
	if err != nil {
		t.Fatalf("bytes=1-MaxInt64 of a 2-byte object must clip, got %v", err)
	}
	if r.Start != 1 || r.Length != 1 {
		t.Fatalf("got %+v, want {1 1}", *r)
	}
}
