package gofakes3_test

// Demonstration for finding D3 (C12/C09): a negative X-Amz-Decoded-Content-Length
// reached ReadAll and panicked in make([]byte, size).
import (
	"net/http/httptest"
	"strings"
	"testing"

	"github.com/johannesboyne/gofakes3"
	"github.com/johannesboyne/gofakes3/backend/s3mem"
)

func TestGvcFindingD3(t *testing.T) {
	backend := s3mem.New()
	backend.CreateBucket("bkt")
	h := gofakes3.New(backend).Server()
	rq := httptest.NewRequest("PUT", "/bkt/obj", strings.NewReader("hello"))
	rq.Header.Set("Content-Length", "5")
	rq.Header.Set("X-Amz-Content-Sha256", "STREAMING-AWS4-HMAC-SHA256-PAYLOAD")
	rq.Header.Set("X-Amz-Decoded-Content-Length", "-5")
	rec := httptest.NewRecorder()
	defer func() {
		if r := recover(); r != nil {
			t.Fatalf("handler panicked: %v", r)
		}
	}()
	h.ServeHTTP(rec, rq)
	if rec.Code != 400 {
		t.Fatalf("status %d, want 400", rec.Code)
	}
}
