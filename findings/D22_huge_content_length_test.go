package gofakes3_test

// Demonstration for known finding D22 (C09, via ReadAll's make obligation): a
// PUT that declares a Content-Length above the runtime's allocation limit makes
// ReadAll panic with "makeslice: len out of range" (the net/http server turns
// that into an aborted connection instead of an S3 error document).
import (
	"net/http/httptest"
	"strings"
	"testing"

	"github.com/johannesboyne/gofakes3"
	"github.com/johannesboyne/gofakes3/backend/s3mem"
)

func TestGvcFindingD22(t *testing.T) {
	backend := s3mem.New()
	backend.CreateBucket("bkt")
	h := gofakes3.New(backend).Server()
	rq := httptest.NewRequest("PUT", "/bkt/obj", strings.NewReader("hello"))
	rq.Header.Set("Content-Length", "1125899906842624") // 2^50
	rec := httptest.NewRecorder()
	defer func() {
		if r := recover(); r != nil {
			t.Fatalf("handler panicked: %v", r)
		}
	}()
	h.ServeHTTP(rec, rq)
	if rec.Code < 400 {
		t.Fatalf("status %d", rec.Code)
	}
}
