package gofakes3_test

// Demonstration for finding D2 (C09): a copy source without a '/' made
// copyObject index parts[1] of a one-element slice and panic.
import (
	"net/http/httptest"
	"strings"
	"testing"

	"github.com/johannesboyne/gofakes3"
	"github.com/johannesboyne/gofakes3/backend/s3mem"
)

func TestGvcFindingD2(t *testing.T) {
	backend := s3mem.New()
	backend.CreateBucket("bkt")
	h := gofakes3.New(backend).Server()
	rq := httptest.NewRequest("PUT", "/bkt/dst", strings.NewReader(""))
	rq.Header.Set("X-Amz-Copy-Source", "nobucketseparator")
	rec := httptest.NewRecorder()
	defer func() {
		if r := recover(); r != nil {
			t.Fatalf("handler panicked: %v", r)
		}
	}()
	h.ServeHTTP(rec, rq)
	if rec.Code != 400 {
		t.Fatalf("status %d, want 400", rec.Code)
	}
}
