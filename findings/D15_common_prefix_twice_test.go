package gofakes3_test

// Demonstration for finding D15 (C04): when a page ends inside a group of keys that share
// a common prefix, NextMarker is a key inside that group, and the next page reports the
// same common prefix again.
import (
	"strings"
	"testing"

	"github.com/johannesboyne/gofakes3"
	"github.com/johannesboyne/gofakes3/backend/s3mem"
)

func TestGvcFindingD15(t *testing.T) {
	backend := s3mem.New()
	backend.CreateBucket("bkt")
	for _, k := range []string{"a/1", "a/2", "b"} {
		if _, err := backend.PutObject("bkt", k, map[string]string{}, strings.NewReader("x"), 1); err != nil {
			t.Fatal(err)
		}
	}
	prefix := gofakes3.NewFolderPrefix("")
	seen := map[string]int{}
	page := gofakes3.ListBucketPage{MaxKeys: 1}
	for i := 0; i < 10; i++ {
		res, err := backend.ListBucket("bkt", &prefix, page)
		if err != nil {
			t.Fatal(err)
		}
		for _, p := range res.CommonPrefixes {
			seen[p.Prefix]++
		}
		if !res.IsTruncated {
			break
		}
		page = gofakes3.ListBucketPage{MaxKeys: 1, HasMarker: true, Marker: res.NextMarker}
	}
	if seen["a/"] != 1 {
		t.Fatalf("common prefix a/ reported %d times over the pages, want once", seen["a/"])
	}
}
