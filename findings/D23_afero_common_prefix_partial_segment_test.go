// pkgdir: backend/s3afero
package s3afero_test

// Demonstration for finding D23 (C03): the multi-bucket file backend builds the common prefix
// of a sub-directory from the listing prefix's *partial last segment* as well as the
// directory name: with keys dir/foo/x and dir/fop and the request prefix "dir/fo",
// delimiter "/", the common prefix reported is "dir/fo/foo/" instead of "dir/foo/".
import (
	"strings"
	"testing"

	"github.com/johannesboyne/gofakes3"
	"github.com/johannesboyne/gofakes3/backend/s3afero"
	"github.com/spf13/afero"
)

func TestGvcFindingD23(t *testing.T) {
	backend, err := s3afero.MultiBucket(afero.NewMemMapFs())
	if err != nil {
		t.Fatal(err)
	}
	if err := backend.CreateBucket("bucket"); err != nil {
		t.Fatal(err)
	}
	for _, k := range []string{"dir/foo/x", "dir/fop"} {
		if _, err := backend.PutObject("bucket", k, map[string]string{}, strings.NewReader("v"), 1); err != nil {
			t.Fatal(err)
		}
	}
	p := gofakes3.NewFolderPrefix("dir/fo")
	list, err := backend.ListBucket("bucket", &p, gofakes3.ListBucketPage{})
	if err != nil {
		t.Fatal(err)
	}
	var got []string
	for _, cp := range list.CommonPrefixes {
		got = append(got, cp.Prefix)
	}
	if len(got) != 1 || got[0] != "dir/foo/" {
		t.Errorf("common prefixes for prefix=dir/fo delimiter=/ are %q, want [\"dir/foo/\"] (every common prefix must start with the request prefix and end at the first delimiter after it)", got)
	}
	if len(list.Contents) != 1 || list.Contents[0].Key != "dir/fop" {
		t.Errorf("contents: %v", list.Contents)
	}
}
