package s3mem
// pkgdir: backend/s3mem

// Demonstration for finding D9 (C05/C09/C13): deleting the current version of an
// object left the object without a current entry while older versions remained;
// the next unqualified GET dereferenced nil (panic) instead of serving the
// newest remaining version. Likewise a plain delete while versioning is
// suspended left data == nil.
import (
	"bytes"
	"io/ioutil"
	"testing"

	"github.com/johannesboyne/gofakes3"
)

func TestGvcFindingD9(t *testing.T) {
	db := New()
	db.CreateBucket("b")
	db.SetVersioningConfiguration("b", gofakes3.VersioningConfiguration{Status: gofakes3.VersioningEnabled})
	r1, _ := db.PutObject("b", "k", map[string]string{}, bytes.NewReader([]byte("one")), 3)
	r2, _ := db.PutObject("b", "k", map[string]string{}, bytes.NewReader([]byte("two")), 3)
	if _, err := db.DeleteObjectVersion("b", "k", r2.VersionID); err != nil {
		t.Fatal(err)
	}
	func() {
		defer func() {
			if p := recover(); p != nil {
				t.Fatalf("GET after deleting the newest version panicked: %v", p)
			}
		}()
		obj, err := db.GetObject("b", "k", nil)
		if err != nil {
			t.Fatalf("newest remaining version not served: %v", err)
		}
		body, _ := ioutil.ReadAll(obj.Contents)
		if string(body) != "one" {
			t.Fatalf("got %q, want the remaining version %q (id %s)", body, "one", r1.VersionID)
		}
	}()
	// plain delete while suspended, with an archived version present
	db.PutObject("b", "k", map[string]string{}, bytes.NewReader([]byte("three")), 5)
	db.SetVersioningConfiguration("b", gofakes3.VersioningConfiguration{Status: gofakes3.VersioningSuspended})
	if _, err := db.DeleteObject("b", "k"); err != nil {
		t.Fatal(err)
	}
	func() {
		defer func() {
			if p := recover(); p != nil {
				t.Fatalf("GET after a delete in a suspended bucket panicked: %v", p)
			}
		}()
		if _, err := db.GetObject("b", "k", nil); !gofakes3.HasErrorCode(err, gofakes3.ErrNoSuchKey) {
			t.Fatalf("want NoSuchKey, got %v", err)
		}
	}()
}
