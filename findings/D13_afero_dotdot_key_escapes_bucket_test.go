// pkgdir: backend/s3afero
package s3afero_test

// Demonstration for finding D13 (C10): the multi-bucket file backend maps (bucket, key) to the
// path path.Join(bucket, key) without looking at the key. A key with ".." segments names a file
// of another bucket: reads return the other bucket's object, writes replace it, deletes remove it.
import (
	"io/ioutil"
	"strings"
	"testing"

	"github.com/johannesboyne/gofakes3/backend/s3afero"
	"github.com/spf13/afero"
)

func TestGvcFindingD13(t *testing.T) {
	backend, err := s3afero.MultiBucket(afero.NewMemMapFs())
	if err != nil {
		t.Fatal(err)
	}
	for _, b := range []string{"alpha", "beta"} {
		if err := backend.CreateBucket(b); err != nil {
			t.Fatal(err)
		}
	}
	secret := "belongs to beta"
	if _, err := backend.PutObject("beta", "secret", map[string]string{}, strings.NewReader(secret), int64(len(secret))); err != nil {
		t.Fatal(err)
	}
	if obj, err := backend.GetObject("alpha", "../beta/secret", nil); err == nil {
		got, _ := ioutil.ReadAll(obj.Contents)
		obj.Contents.Close()
		t.Errorf("GetObject(alpha, ../beta/secret) returned %q: a key of bucket alpha reads an object of bucket beta", got)
	}
	over := "overwritten through alpha"
	if _, err := backend.PutObject("alpha", "../beta/secret", map[string]string{}, strings.NewReader(over), int64(len(over))); err == nil {
		obj, err := backend.GetObject("beta", "secret", nil)
		if err != nil {
			t.Fatal(err)
		}
		got, _ := ioutil.ReadAll(obj.Contents)
		obj.Contents.Close()
		if string(got) != secret {
			t.Errorf("PutObject(alpha, ../beta/secret) changed beta/secret to %q", got)
		}
	}
	if _, err := backend.DeleteObject("alpha", "../beta/secret"); err == nil {
		if _, err := backend.HeadObject("beta", "secret"); err != nil {
			t.Errorf("DeleteObject(alpha, ../beta/secret) removed beta/secret: %v", err)
		}
	}
}
