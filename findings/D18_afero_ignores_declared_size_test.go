// pkgdir: backend/s3afero
package s3afero_test

// Demonstration for finding D18 (C08, C12): the afero backends never look at the declared
// size of an upload. A body shorter (or longer) than declared is stored as it comes, where
// the memory and bolt backends answer ErrIncompleteBody and leave the key alone.
import (
	"strings"
	"testing"

	"github.com/johannesboyne/gofakes3/backend/s3afero"
	"github.com/spf13/afero"
)

func TestGvcFindingD18(t *testing.T) {
	backend, err := s3afero.MultiBucket(afero.NewMemMapFs())
	if err != nil {
		t.Fatal(err)
	}
	if err := backend.CreateBucket("bucket"); err != nil {
		t.Fatal(err)
	}
	if _, err := backend.PutObject("bucket", "short", map[string]string{}, strings.NewReader("abc"), 10); err == nil {
		t.Errorf("a 3-byte body declared as 10 bytes was accepted")
		if obj, err := backend.HeadObject("bucket", "short"); err == nil {
			t.Errorf("... and stored with size %d", obj.Size)
		}
	}
	if _, err := backend.PutObject("bucket", "long", map[string]string{}, strings.NewReader("abcdefghij"), 3); err == nil {
		t.Errorf("a 10-byte body declared as 3 bytes was accepted")
	}
	single, err := s3afero.SingleBucket("bucket", afero.NewMemMapFs(), nil)
	if err != nil {
		t.Fatal(err)
	}
	if _, err := single.PutObject("bucket", "short", map[string]string{}, strings.NewReader("abc"), 10); err == nil {
		t.Errorf("single-bucket backend: a 3-byte body declared as 10 bytes was accepted")
	}
}
