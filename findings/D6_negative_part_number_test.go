package gofakes3_test

// Demonstration for finding D6 (C06/C09): a complete request naming a negative
// part number indexed parts[-1] and panicked.
import (
	"net/http/httptest"
	"strings"
	"testing"

	"github.com/johannesboyne/gofakes3"
	"github.com/johannesboyne/gofakes3/backend/s3mem"
)

func TestGvcFindingD6(t *testing.T) {
	backend := s3mem.New()
	backend.CreateBucket("bkt")
	h := gofakes3.New(backend).Server()
	do := func(method, url, body string) *httptest.ResponseRecorder {
		rq := httptest.NewRequest(method, url, strings.NewReader(body))
		rq.Header.Set("Content-Length", "5")
		rec := httptest.NewRecorder()
		h.ServeHTTP(rec, rq)
		return rec
	}
	rec := do("POST", "/bkt/obj?uploads", "")
	id := rec.Body.String()
	id = id[strings.Index(id, "<UploadId>")+10 : strings.Index(id, "</UploadId>")]
	do("PUT", "/bkt/obj?partNumber=1&uploadId="+id, "hello")
	defer func() {
		if r := recover(); r != nil {
			t.Fatalf("handler panicked: %v", r)
		}
	}()
	rec = do("POST", "/bkt/obj?uploadId="+id, "<CompleteMultipartUpload><Part><PartNumber>-1</PartNumber><ETag>x</ETag></Part></CompleteMultipartUpload>")
	if rec.Code != 400 {
		t.Fatalf("status %d, want 400 InvalidPart", rec.Code)
	}
}
