// pkgdir: backend/s3afero
package s3afero_test

// Demonstration for finding D14 (C08): the afero backends create (truncate) the object's
// file before the body has been read. An upload whose body fails half way - here a reader
// that returns an error after three bytes, the shape of a dropped connection or of the
// integrity check firing at the end of the stream - is rejected, but the object that was
// stored under the key before is gone: the key now holds the partial body.
import (
	"errors"
	"io"
	"io/ioutil"
	"strings"
	"testing"

	"github.com/johannesboyne/gofakes3/backend/s3afero"
	"github.com/spf13/afero"
)

type failingBody struct {
	data string
	pos  int
}

func (f *failingBody) Read(p []byte) (int, error) {
	if f.pos >= len(f.data) {
		return 0, errors.New("connection reset")
	}
	n := copy(p, f.data[f.pos:])
	f.pos += n
	return n, nil
}

func TestGvcFindingD14(t *testing.T) {
	backend, err := s3afero.MultiBucket(afero.NewMemMapFs())
	if err != nil {
		t.Fatal(err)
	}
	if err := backend.CreateBucket("bucket"); err != nil {
		t.Fatal(err)
	}
	old := "the previous content"
	if _, err := backend.PutObject("bucket", "key", map[string]string{}, strings.NewReader(old), int64(len(old))); err != nil {
		t.Fatal(err)
	}
	_, err = backend.PutObject("bucket", "key", map[string]string{}, &failingBody{data: "new"}, 10)
	if err == nil {
		t.Fatal("the failing upload was accepted")
	}
	obj, err := backend.GetObject("bucket", "key", nil)
	if err != nil {
		t.Fatalf("after the rejected upload the key cannot be read: %v", err)
	}
	defer obj.Contents.Close()
	got, _ := ioutil.ReadAll(io.LimitReader(obj.Contents, 1<<20))
	if string(got) != old {
		t.Errorf("rejected upload changed the stored object: key now holds %q, want %q", got, old)
	}

	single, err := s3afero.SingleBucket("bucket", afero.NewMemMapFs(), nil)
	if err != nil {
		t.Fatal(err)
	}
	if _, err := single.PutObject("bucket", "key", map[string]string{}, strings.NewReader(old), int64(len(old))); err != nil {
		t.Fatal(err)
	}
	if _, err = single.PutObject("bucket", "key", map[string]string{}, &failingBody{data: "new"}, 10); err == nil {
		t.Fatal("single-bucket backend: the failing upload was accepted")
	}
	sobj, err := single.GetObject("bucket", "key", nil)
	if err != nil {
		t.Fatalf("single-bucket backend: after the rejected upload the key cannot be read: %v", err)
	}
	defer sobj.Contents.Close()
	got, _ = ioutil.ReadAll(io.LimitReader(sobj.Contents, 1<<20))
	if string(got) != old {
		t.Errorf("single-bucket backend: rejected upload changed the stored object: key now holds %q, want %q", got, old)
	}
}
