package gofakes3_test

// Demonstration for finding D11 (C13, C09): listing versions with a version-id-marker
// made bucketObjectIterator.Seek call Seek on a nil skiplist iterator when the first
// matching key has no archived versions (its version list was never created), so the
// request panicked instead of being answered.
import (
	"fmt"
	"net/http/httptest"
	"strings"
	"testing"

	"github.com/johannesboyne/gofakes3"
	"github.com/johannesboyne/gofakes3/backend/s3mem"
)

func TestGvcFindingD11(t *testing.T) {
	backend := s3mem.New()
	backend.CreateBucket("bkt")
	if err := backend.SetVersioningConfiguration("bkt", gofakes3.VersioningConfiguration{Status: gofakes3.VersioningEnabled}); err != nil {
		t.Fatal(err)
	}
	h := gofakes3.New(backend).Server()
	body := "only version"
	rq := httptest.NewRequest("PUT", "/bkt/key", strings.NewReader(body))
	rq.Header.Set("Content-Length", fmt.Sprint(len(body)))
	rec := httptest.NewRecorder()
	h.ServeHTTP(rec, rq)
	vid := rec.Header().Get("x-amz-version-id")
	if rec.Code != 200 || vid == "" {
		t.Fatalf("put: %d %q", rec.Code, vid)
	}
	defer func() {
		if r := recover(); r != nil {
			t.Fatalf("listing versions with key-marker=key&version-id-marker=<its only version> panicked: %v", r)
		}
	}()
	page := &gofakes3.ListBucketVersionsPage{KeyMarker: "key", HasKeyMarker: true, VersionIDMarker: gofakes3.VersionID(vid), HasVersionIDMarker: true}
	if _, err := backend.ListBucketVersions("bkt", nil, page); err != nil {
		t.Logf("answered with error %v (acceptable: no panic)", err)
	}
}
