package gofakes3_test

// Demonstration for finding D10 (C13): a truncated ListObjectVersions response carries
// no NextKeyMarker / NextVersionIdMarker, so the remaining versions cannot be retrieved.
import (
	"strings"
	"testing"

	"github.com/johannesboyne/gofakes3"
	"github.com/johannesboyne/gofakes3/backend/s3mem"
)

func TestGvcFindingD10(t *testing.T) {
	backend := s3mem.New()
	backend.CreateBucket("bkt")
	if err := backend.SetVersioningConfiguration("bkt", gofakes3.VersioningConfiguration{Status: gofakes3.VersioningEnabled}); err != nil {
		t.Fatal(err)
	}
	for _, body := range []string{"one", "two", "three"} {
		if _, err := backend.PutObject("bkt", "key", map[string]string{}, strings.NewReader(body), int64(len(body))); err != nil {
			t.Fatal(err)
		}
	}
	res, err := backend.ListBucketVersions("bkt", nil, &gofakes3.ListBucketVersionsPage{MaxKeys: 1})
	if err != nil {
		t.Fatal(err)
	}
	if len(res.Versions) != 1 || !res.IsTruncated {
		t.Fatalf("expected one entry and IsTruncated, got %d entries, truncated=%v", len(res.Versions), res.IsTruncated)
	}
	if res.NextKeyMarker == "" || res.NextVersionIDMarker == "" {
		t.Fatalf("truncated listing without continuation: NextKeyMarker=%q NextVersionIdMarker=%q", res.NextKeyMarker, res.NextVersionIDMarker)
	}
}
