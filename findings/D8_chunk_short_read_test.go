package gofakes3

// Demonstration for finding D8 (property C12): chunkedReader.Read decremented
// chunkRemain by the requested size before a possibly short inner read.
// Run: go test -overlay (see findings/README.md). Fails before fix 'chunkedReader short read', passes after.

import (
	"bytes"
	"fmt"
	"io"
	"strings"
	"testing"
)

type gvcFragReader struct {
	r io.Reader
	k int
}

func (f *gvcFragReader) Read(p []byte) (int, error) {
	if len(p) > f.k {
		p = p[:f.k]
	}
	return f.r.Read(p)
}

func TestGvcFindingD8(t *testing.T) {
	payload := []byte("0123456789abcdefghij")
	sig := strings.Repeat("a", 64)
	framed := fmt.Sprintf("%x;chunk-signature=%s\r\n%s\r\n0;chunk-signature=%s\r\n\r\n", len(payload), sig, payload, sig)
	cr := newChunkedReader(&gvcFragReader{r: strings.NewReader(framed), k: 3})
	var out []byte
	buf := make([]byte, 8)
	for {
		n, err := cr.Read(buf)
		out = append(out, buf[:n]...)
		if err != nil {
			break
		}
		if len(out) > 100 {
			break
		}
	}
	if !bytes.Equal(out, payload) {
		t.Fatalf("decoded %q, want %q", out, payload)
	}
}
