package s3mem
// pkgdir: backend/s3mem

// Demonstration for known finding D20 (C05): an upload (or delete) made while
// versioning is suspended drops the current version although it was created
// while versioning was enabled.
import (
	"bytes"
	"testing"

	"github.com/johannesboyne/gofakes3"
)

func TestGvcFindingD20(t *testing.T) {
	db := New()
	db.CreateBucket("b")
	db.SetVersioningConfiguration("b", gofakes3.VersioningConfiguration{Status: gofakes3.VersioningEnabled})
	r1, _ := db.PutObject("b", "k", map[string]string{}, bytes.NewReader([]byte("one")), 3)
	db.SetVersioningConfiguration("b", gofakes3.VersioningConfiguration{Status: gofakes3.VersioningSuspended})
	db.PutObject("b", "k", map[string]string{}, bytes.NewReader([]byte("two")), 3)
	if _, err := db.GetObjectVersion("b", "k", r1.VersionID, nil); err != nil {
		t.Fatalf("version %s was created while versioning was enabled and must stay retrievable: %v", r1.VersionID, err)
	}
}
