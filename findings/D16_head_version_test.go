package gofakes3_test

// Demonstration for finding D16 (C05): HEAD /bucket/key?versionId=<id> ignored
// the version id and answered with the entity headers of the current version,
// so an earlier version was not retrievable by HEAD.
import (
	"fmt"
	"net/http/httptest"
	"strings"
	"testing"

	"github.com/johannesboyne/gofakes3"
	"github.com/johannesboyne/gofakes3/backend/s3mem"
)

func TestGvcFindingD16(t *testing.T) {
	backend := s3mem.New()
	backend.CreateBucket("bkt")
	if err := backend.SetVersioningConfiguration("bkt", gofakes3.VersioningConfiguration{Status: gofakes3.VersioningEnabled}); err != nil {
		t.Fatal(err)
	}
	h := gofakes3.New(backend).Server()
	put := func(body string) string {
		rq := httptest.NewRequest("PUT", "/bkt/key", strings.NewReader(body))
		rq.Header.Set("Content-Length", fmt.Sprint(len(body)))
		rec := httptest.NewRecorder()
		h.ServeHTTP(rec, rq)
		if rec.Code != 200 {
			t.Fatalf("put: status %d", rec.Code)
		}
		return rec.Header().Get("x-amz-version-id")
	}
	v1 := put("first")
	v2 := put("second, longer")
	if v1 == "" || v1 == v2 {
		t.Fatalf("version ids %q %q", v1, v2)
	}
	get := httptest.NewRecorder()
	h.ServeHTTP(get, httptest.NewRequest("GET", "/bkt/key?versionId="+v1, nil))
	head := httptest.NewRecorder()
	h.ServeHTTP(head, httptest.NewRequest("HEAD", "/bkt/key?versionId="+v1, nil))
	if head.Code != 200 {
		t.Fatalf("head: status %d", head.Code)
	}
	for _, k := range []string{"ETag", "Content-Length", "x-amz-version-id"} {
		if g, h := get.Header().Get(k), head.Header().Get(k); g != h {
			t.Errorf("HEAD ?versionId=%s reports %s %q, GET of the same version %q", v1, k, h, g)
		}
	}
}
