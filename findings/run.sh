#!/bin/sh
# usage: findings/run.sh <file_test.go> [repo-dir]   — runs one demonstration against a repo tree via -overlay
f=$(readlink -f "$1"); repo=${2:-/repo}
pkg=$(sed -n 's/^\/\/ pkgdir: //p' "$f"); pkg=${pkg:-.}
tmp=$(mktemp -d); trap 'rm -rf $tmp' EXIT
printf '{"Replace":{"%s/%s/zz_gvc_finding_test.go":"%s"}}' "$repo" "$pkg" "$f" > $tmp/ov.json
cd "$repo/$pkg" && GOFLAGS=-mod=mod GOPROXY=off GOSUMDB=off GOTOOLCHAIN=local go test -overlay $tmp/ov.json -vet=off -count=1 -timeout 120s -run 'TestGvcFinding' .
