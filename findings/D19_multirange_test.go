package gofakes3

// Demonstration for known finding D19 (C11): a Range header naming several
// ranges is answered with NotImplemented (501), a failure other than the
// InvalidRange (416) the property allows. Recorded, not repaired: the 501 is a
// deliberate choice of the maintainers ("multiple ranges not supported").
import "testing"

func TestGvcFindingD19(t *testing.T) {
	_, err := parseRangeHeader("bytes=0-1,2-3")
	if !HasErrorCode(err, ErrInvalidRange) {
		t.Fatalf("multiple ranges: got %v, the property only allows InvalidRange", err)
	}
}
