// pkgdir: backend/s3bolt
package s3bolt_test

// Demonstration for finding D12 (C10): the bolt backend keeps its bookkeeping in a
// top-level bolt bucket named "_meta" next to the S3 buckets, and most operations
// did not refuse that name: "_meta" answered as an existing bucket and objects could
// be written into (and listed and read from) the bookkeeping bucket.
import (
	"fmt"
	"net/http/httptest"
	"path/filepath"
	"strings"
	"testing"

	"github.com/johannesboyne/gofakes3"
	"github.com/johannesboyne/gofakes3/backend/s3bolt"
)

func TestGvcFindingD12(t *testing.T) {
	backend, err := s3bolt.NewFile(filepath.Join(t.TempDir(), "db.bolt"))
	if err != nil {
		t.Fatal(err)
	}
	if err := backend.CreateBucket("real"); err != nil {
		t.Fatal(err)
	}
	if ok, _ := backend.BucketExists("_meta"); ok {
		t.Errorf("BucketExists(\"_meta\") = true: the bookkeeping bucket is addressable as an S3 bucket")
	}
	h := gofakes3.New(backend).Server()
	body := "x"
	rq := httptest.NewRequest("PUT", "/_meta/bucket/real", strings.NewReader(body))
	rq.Header.Set("Content-Length", fmt.Sprint(len(body)))
	rec := httptest.NewRecorder()
	h.ServeHTTP(rec, rq)
	if rec.Code == 200 {
		t.Errorf("PUT /_meta/bucket/real answered 200: an object was written into the bookkeeping bucket (over the creation record of bucket \"real\")")
	}
	if _, err := backend.GetObject("_meta", "bucket/real", nil); err == nil {
		t.Errorf("GetObject(\"_meta\", ...) succeeded: bookkeeping records are readable as objects")
	}
	if err := backend.CreateBucket("_meta"); err == nil {
		t.Errorf("CreateBucket(\"_meta\") succeeded")
	}
	// the real bucket must still be listed with a sane creation date
	if _, err := backend.ListBuckets(); err != nil {
		t.Errorf("ListBuckets after the writes: %v", err)
	}
}
