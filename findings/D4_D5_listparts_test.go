package gofakes3

// Demonstration for findings D4 and D5 (C14/C09): ListParts sliced parts[marker:]
// (panic for a marker beyond the highest part; part numbers and the next marker
// reported relative to the re-sliced array).
import (
	"bytes"
	"testing"
)

type gvcNopBackend struct{ Backend }

func TestGvcFindingD4D5(t *testing.T) {
	u := newUploader(gvcNopBackend{}, DefaultTimeSource())
	id, _ := u.CreateMultipartUpload("b", "k", nil)
	for _, n := range []int{1, 2, 3} {
		if _, err := u.UploadPart("b", "k", id, n, 1, bytes.NewReader([]byte("x"))); err != nil {
			t.Fatal(err)
		}
	}
	// D5: page after part 1 must list parts 2 and 3 with their true numbers
	r, err := u.ListParts("b", "k", id, 1, 10)
	if err != nil {
		t.Fatal(err)
	}
	if len(r.Parts) != 2 || r.Parts[0].PartNumber != 2 || r.Parts[1].PartNumber != 3 {
		t.Fatalf("after marker 1: %+v", r.Parts)
	}
	// paging with the returned marker visits every part once
	var seen []int
	marker := 0
	for i := 0; i < 10; i++ {
		r, err := u.ListParts("b", "k", id, marker, 1)
		if err != nil {
			t.Fatal(err)
		}
		for _, p := range r.Parts {
			seen = append(seen, p.PartNumber)
		}
		if !r.IsTruncated {
			break
		}
		marker = r.NextPartNumberMarker
	}
	if len(seen) != 3 || seen[0] != 1 || seen[1] != 2 || seen[2] != 3 {
		t.Fatalf("paged: %v", seen)
	}
	// D4: a marker beyond the highest part is an empty page, not a panic
	defer func() {
		if p := recover(); p != nil {
			t.Fatalf("panic: %v", p)
		}
	}()
	r, err = u.ListParts("b", "k", id, 100, 10)
	if err != nil || len(r.Parts) != 0 {
		t.Fatalf("marker 100: %v %+v", err, r)
	}
}
