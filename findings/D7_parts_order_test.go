package gofakes3

// Demonstration for finding D7 (C06): partsAreSorted sorted a copy of the part
// numbers and tested the copy, so it was constantly true and an out-of-order
// complete request was accepted.
import "testing"

func TestGvcFindingD7(t *testing.T) {
	c := CompleteMultipartUploadRequest{Parts: []CompletedPart{{PartNumber: 2}, {PartNumber: 1}}}
	if c.partsAreSorted() {
		t.Fatal("part list 2,1 reported as sorted")
	}
}
