#!/usr/bin/env python3
# Generates MANIFEST.json from the table below (kept as a script so the file stays consistent).
import json
claimed = {
 "C11": dict(category="proof",
   text="Every obligation generated from the real go/ssa of ObjectRangeRequest.Range (and the other carriers listed in the evidence) is discharged by an SMT solver for all int64 inputs: postconditions against the specification functions specRange*, absence of integer overflow at every arithmetic site, nil-dereference freedom, frame. No bound on any input.",
   note="Trusted: the gvc VC generator (/verif/gvc), go/ssa, the solvers; assumed library contracts listed in the evidence under trusted_base. Range's precondition wfRangeReq is what parseRangeHeader is proved to establish.",
   technique="contract-based deductive verification: weakest-precondition VCs over go/ssa with //@ contracts, discharged by z3/cvc5", design="7 (C11)"),
 "C06": dict(category="proof",
   text="The uploader functions that decide what a completed multipart upload stores (UploadPart, CompleteMultipartUpload, AbortMultipartUpload, bucketUploads.remove, partsAreSorted/partIDs, getUnlocked) are verified against contracts taken from the property: a rejected complete leaves uploader and store untouched (unchanged()), a listed part must exist with a matching ETag, order is checked against the real request order, on success exactly one PutObject with the upload's metadata and a body whose length is the sum of the listed parts, and the upload id is removed. All loop iterations and all inputs; no bound.",
   note="Trusted: gvc, go/ssa, solvers; assumed contracts for skiplist, io, hash, bytes (trusted_base in the evidence); the Backend.PutObject interface contract (ghost call log); physical assumption 'mem' (listed parts are resident, so their total size fits the allocator). Byte-level equality of the concatenated body is not yet a discharged clause (length is).",
   technique="contract-based deductive verification: weakest-precondition VCs over go/ssa with //@ contracts, discharged by z3/cvc5", design="7 (C06)"),
}
na = {
 "C15": "not applicable: restart/crash durability rests on bbolt's commit protocol, OS file semantics and BSON/JSON encoders, none of which is /repo code a function contract can express (DESIGN.md section 11)",
}
pending = ["C01","C02","C03","C04","C05","C06","C07","C08","C09","C10","C12","C13","C14","C16","C17"]
checks=[]
for pid,c in sorted(claimed.items()):
    checks.append({
      "property_id": pid,
      "quick_cmd": f"bin/gvc check -p {pid} -tier quick",
      "thorough_cmd": f"bin/gvc check -p {pid} -tier thorough",
      "evidence_file": f"/verif/evidence/{pid}.json",
      "replay_cmd_template": "cat {path}",
      "engine": "gvc",
      "level_claimed": {"category": c["category"], "text": c["text"], "design_ref": c["design"]},
      "level_note": c["note"],
      "technique": c["technique"],
    })
nas=[{"property_id":k,"reason":v} for k,v in sorted(na.items())]
for p in pending:
    if p not in claimed:
        nas.append({"property_id":p,"reason":"not claimed yet: contracts for its carrier functions are not discharged in this revision (work in progress, see DESIGN.md section 10)"})
m={
 "version":1,
 "setup_cmd":"cd gvc && GOFLAGS=-mod=mod GOPROXY=off GOSUMDB=off GOTOOLCHAIN=local go build -o ../bin/gvc .",
 "hooks":{"guard":"verif","enable":"go build -tags verif (gvc loads /repo with -tags=verif; the tag only adds comment-only contract files and pure spec functions)",
   "baseline_off_cmd":"cd /repo && GOFLAGS=-mod=mod GOPROXY=off GOSUMDB=off go test -vet=off -count=1 ./...",
   "source_commits":[],"add_only":True},
 "engines":[{"name":"gvc","path":"/verif/gvc","serves_properties":sorted(claimed.keys()),"kind_free_text":"verification-condition generator for Go (go/ssa naive form + //@ contracts) with SMT back ends z3 4.8.12, z3 5.1.0, cvc5 1.0.3"}],
 "checks":checks,
 "not_applicable":sorted(nas,key=lambda x:x["property_id"]),
 "notes":"Contracts live in /repo/**/contracts_verif.go (build tag verif) and /verif/libcontracts/*.gvc (assumed library contracts). known_findings.json lists recorded findings and fix: commits.",
}
import subprocess
hooks=subprocess.run(["git","-C","/repo","log","--format=%h %s"],capture_output=True,text=True).stdout.splitlines()
m["hooks"]["source_commits"]=[h.split()[0] for h in hooks if "verif hook" in h]
json.dump(m,open("/verif/MANIFEST.json","w"),indent=1)
print("claimed:",sorted(claimed.keys()))
