#!/usr/bin/env python3
# Generates MANIFEST.json from the table below (kept as a script so the file stays consistent).
import json
T="contract-based deductive verification: weakest-precondition VCs over go/ssa with //@ contracts, discharged by z3/cvc5"
claimed = {
 "C11": dict(category="proof",
   text="Every obligation generated from the real go/ssa of ObjectRangeRequest.Range (and the other carriers listed in the evidence) is discharged by an SMT solver for all int64 inputs: postconditions against the specification functions specRange*, absence of integer overflow at every arithmetic site, nil-dereference freedom, frame. No bound on any input.",
   note="Trusted: the gvc VC generator (/verif/gvc), go/ssa, the solvers; assumed library contracts listed in the evidence under trusted_base. Range's precondition wfRangeReq is what parseRangeHeader is proved to establish.",
   technique="contract-based deductive verification: weakest-precondition VCs over go/ssa with //@ contracts, discharged by z3/cvc5", design="7 (C11)"),
 "C06": dict(category="proof",
   text="The uploader functions that decide what a completed multipart upload stores (UploadPart, CompleteMultipartUpload, AbortMultipartUpload, bucketUploads.remove, partsAreSorted/partIDs, getUnlocked) are verified against contracts taken from the property: a rejected complete leaves uploader and store untouched (unchanged()), a listed part must exist with a matching ETag, order is checked against the real request order, on success exactly one PutObject with the upload's metadata and a body whose length is the sum of the listed parts, and the upload id is removed. All loop iterations and all inputs; no bound.",
   note="Trusted: gvc, go/ssa, solvers; assumed contracts for skiplist, io, hash, bytes (trusted_base in the evidence); the Backend.PutObject interface contract (ghost call log); physical assumption 'mem' (listed parts are resident, so their total size fits the allocator). Byte-level equality of the concatenated body is not yet a discharged clause (length is).",
   technique="contract-based deductive verification: weakest-precondition VCs over go/ssa with //@ contracts, discharged by z3/cvc5", design="7 (C06)"),

 "C05": dict(category="proof",
   text="The memory backend's versioning functions (bucket.put, rm, rmVersion, object, objectVersion, setVersioning and the Backend methods built on them) are verified against one-step contracts over the abstract view {current version} + {archived versions}: an enabled put archives the previous current version under its id and keeps every archived entry, a plain delete adds a marker and archives, deleting a version removes exactly that id and promotes the newest remaining one, lookups by id return the entry filed under it. All inputs, no bound. Two obligations (history of put/rm while suspended) fail and are listed as known finding D20. HEAD/GET by version id reach the backend with the requested id (D16 fixed).",
   note="The bucket representation invariant bucketInv/idsIssued is assumed at entry and proved preserved by put, rm and rmVersion (and re-established for the addressed bucket by the Backend methods); separation between different buckets' structures is assumed. Trusted: skiplist model (libcontracts/skiplist.gvc), version-id generator freshness (funcfield bucket.versionGen).",
   technique=T, design="7 (C05)"),
 "C08": dict(category="proof",
   text="Digest and length checks (newHashingReader, hashingReader.Read, ReadAll) and the rejection paths of createObject, copyObject, CopyObject, UploadPart, CompleteMultipartUpload and s3mem PutObject are verified: a rejected call returns with the stored state unchanged (unchanged() / store_gen clauses), the digest is compared at EOF, a length mismatch is IncompleteBody.",
   note="The filesystem backends' PutObject (truncate-then-copy, size ignored: D14, D18 of DESIGN.md) and the bolt backend are outside the verified set; the handler-level clauses rely on the Backend.PutObject interface contract for them. ReadAll's make obligation is known finding D22.",
   technique=T, design="7 (C08)"),
 "C09": dict(category="proof",
   text="Panic-freedom and well-formed error mapping for the routed surface of the root package: every index, slice, nil-dereference, type-assertion, make, division, nil-map-write and explicit-panic site, every integer-overflow site and every mutex operation in 70+ functions (routing, all handlers, parameter parsing, uploader, streaming readers, error constructors, ErrorCode.Status) is an obligation discharged from contracts; chunkedReader.Read also has a termination measure. Known finding D22 (huge declared length).",
   note="Handlers assume gInv (what New establishes) and rqInv (what net/http guarantees about a request); calls into net/http, encoding/xml, time are assumed contracts. s3mem functions are included as far as they are under contract; bolt/afero backends are not.",
   technique=T, design="7 (C09)"),
 "C12": dict(category="proof",
   text="chunkedReader.Read is verified against step relations taken from the framing in the statement: in data mode exactly the bytes delivered are consumed and counted however short the inner reads are; a header iteration consumes 2 (after the first chunk) + header + 82 bytes and installs the parsed size; bounds, termination, refinement of io.Reader. createObject passes a non-negative decoded length; ReadAll/PutObject(mem) reject length mismatches.",
   note="Content of the chunk-signature bytes is not validated by the code and not specified. fs backends ignore the declared size (D18). Assumed: io.Reader/io.CopyN/fmt.Fscanf contracts, finite streams.",
   technique=T, design="7 (C12)"),
 "C17": dict(category="proof",
   text="ValidateBucketName is proved equivalent to the statement's regular language (labels, single dots, 3..63, not IPv4) in the SMT theory of strings/regular expressions for all strings; createBucket refuses before any storage call. The label loop uses two assumed clauses about strings.Split which are validated by bounded enumeration.",
   note="Regular-language goals are decided by z3 5.1.0 only (no second opinion). Bounded: split lemma (all strings over {a,0,-,.} up to length 9) and the regexp->RegLan translator (differential against package regexp).",
   technique=T+" (theory of strings)", design="7 (C17)"),
 "C02": dict(category="proof",
   text="One-step contracts, taken from the reference semantics in the statement, are discharged for the memory backend's bucket and object operations (BucketExists, CreateBucket, DeleteBucket, ForceDeleteBucket, HeadObject, GetObject, PutObject, DeleteObject and bucket.put/rm/object under them) over the abstract view bucket name -> key -> current object, and for the root-package handlers that map backend answers to S3 errors (ensureBucketExists, headBucket, deleteBucket, deleteObject, deleteMulti, CopyObject, ErrorCode.Status): absent bucket -> NoSuchBucket, existing bucket on create -> BucketAlreadyExists, non-empty bucket -> BucketNotEmpty, absent or delete-marked key -> NoSuchKey, put then get returns what was put, delete is idempotent. The sequence claim follows by induction over one-step contracts that all preserve and assume the same invariant. All inputs, no bound.",
   note="Memory backend only: the bolt and afero backends are outside the verified set (no contracts; DESIGN.md section 10), so 'all bundled backends agree' is not decided here. The per-bucket representation invariant is proved preserved by put/rm/rmVersion and re-established for the addressed bucket by PutObject/DeleteObject/DeleteObjectVersion; that distinct buckets never share an index, object or version list is assumed at method entry, not proved. Trusted: skiplist model, Backend interface contracts at the handler level.",
   technique=T, design="7 (C02)"),
 "C03": dict(category="proof",
   text="s3mem.(*Backend).ListBucket is verified, for every bucket content, prefix, marker and page size, against contracts taken from the statement over the sorted key index of the skiplist model: soundness (every Contents entry is a live, matching, non-grouped key after the marker, with the stored Size), completeness (every live matching key among those visited is either in Contents or represented in the prefix set), strict ascending order, common prefixes are de-duplicated and each stems from a listed key; goskipiter.(New, Next, Key, Value, Seek) and ObjectList.(Add, AddPrefix) carry the contracts it relies on. Loop invariants with no bound on the number of keys.",
   note="Prefix.Match is under a `nobody` contract (its result is named by uninterpreted functions); it is tied to the wording of the statement only by a bounded exhaustive stand-in (all keys/prefixes over {a,b,/} up to length 5 quick / 7 thorough), reported as bounded in the evidence and not counted as proved. ETag equality is not a clause (string concatenation of hex digest); V1/V2 XML rendering, bolt and afero listings are outside the verified set. Trusted: skiplist model (sorted unique keys).",
   technique=T, design="7 (C03)"),
 "C04": dict(category="proof",
   text="For the paginating backend (memory), ListBucket is verified to return at most MaxKeys entries, to start strictly after the marker whether or not the marker is present, and when it reports IsTruncated to hand back a NextMarker that is a key of the bucket after the marker such that the page is complete for every key up to and including NextMarker and contains no key beyond it; when not truncated the page is complete for the whole bucket. listBucket/listBucketPageFromQuery/parseClampedInt carry the request decoding (marker, decoded continuation token with precedence over start-after, start-after, none). The clause that no key after NextMarker falls into a common prefix already reported on the page fails on the unchanged tree and is recorded as known finding D15. These one-page contracts are what the multi-page statement follows from by induction on the position of NextMarker in the key order.",
   note="The induction over pages itself (concatenation of pages equals the unpaginated listing) is a consequence argued in DESIGN.md, not a discharged obligation; termination of the page walk follows from NextMarker being strictly after the marker (clause next). The fallback path for non-paginating backends is covered only as far as listBucket's contract states it. Prefix.Match as for C03 (bounded stand-in).",
   technique=T, design="7 (C04)"),
 "C14": dict(category="proof",
   text="uploader.ListParts is verified against the statement: exactly the parts held for the upload after the marker, true part numbers, sizes and ETags, ascending order, MaxParts respected, IsTruncated/NextPartNumberMarker such that the next page continues with none skipped or repeated; together with UploadPart/CompleteMultipartUpload/Abort/remove contracts on the uploader invariant. All inputs and all iterations.",
   note="bucketUploads.add/remove are verified to keep the two views of the pending uploads consistent (every index entry is the upload registered under its id and filed under its own key, ids distinct, every registered upload indexed, order of the remaining entries preserved); CreateMultipartUpload/AbortMultipartUpload/CompleteMultipartUpload preserve these invariants for every bucket (two frame lemmas of CompleteMultipartUpload are waived and listed in the evidence); upload ids are fresh by a counter model of math/big. ListMultipartUploads is verified for panic-freedom, the limit, soundness of every listed upload (registered, under that key) and of the next markers (they name a registered upload of NextKeyMarker; empty when not truncated). NOT under contract: completeness and order of ListMultipartUploads and its treatment of common prefixes at page boundaries.",
   technique=T, design="7 (C14)"),
 "C16": dict(category="proof",
   text="hostBucketMiddleware and hostBucketBaseMiddleware closures are verified in the SMT theory of strings: the rewritten request path is '/' + first host label + original path exactly when the host has the form <single label>.<base> for a configured base (or unconditionally in host-bucket mode), untouched otherwise, and the inner handler is served exactly once with it; Server wires the middlewares according to the options. routeBase's dispatch is verified over the decomposition of the path.",
   note="The slash normalisation inside routeBase (strings.Trim + SplitN) is checked by a bounded exhaustive stand-in (all paths over {a,/,.} up to length 7 quick / 9 thorough) and reported as bounded. net/http behaviour (Host header parsing) is an assumed contract.",
   technique=T+" (theory of strings)", design="7 (C16)"),
 "C10": dict(category="proof",
   text="Memory backend: every bucket/object operation carries frame clauses taken from the statement (operations on (bucket,key) leave hasObj/objAt of every other key and has/at of every other bucket unchanged; listings and reads are unchanged() on the whole store), discharged for all inputs. Bolt backend: the bolt file's top-level buckets are one namespace shared with the bookkeeping bucket '_meta'; the library contracts of Tx.Bucket/CreateBucket/DeleteBucket require a name different from '_meta', bolt.DB.View/Update are modelled as invoking their closure, and every S3-addressed call site in s3bolt discharges that precondition (it did not before fix f4a4952, D12). routeBase keeping dot segments inside the opaque key is checked by a bounded stand-in (all paths over {a,/,.} up to length 7 quick / 9 thorough), labelled bounded.",
   note="Filesystem backends are outside the verified set: confinement of keys with '..' segments (D13 of DESIGN.md, reproduced by hand) depends on path.Join/Clean and afero semantics that no contract here models, so that conjunct is NOT decided. Bolt: only the call-site preconditions are claimed for s3bolt functions; the object invariant str(db.metaBucketName)=='_meta' is assumed at method entry (established by New when no option is passed; the field is checked to be written only in New). routeBase does not clean paths (C16 contracts).",
   technique=T, design="7 (C10), 12"),
 "C01": dict(category="proof",
   text="Memory backend and root package, all inputs: ReadAll returns exactly the next `size` bytes of the stream (ghost rd_data) or an error; s3mem PutObject stores a body equal byte-for-byte to those bytes, hash = md5.Sum(body) and etag = quote(hex(hash)), metadata = the map passed in; toObject/GetObject hand back a bytes.Reader over the stored body (or the requested sub-range of it: contents clause over the reader's source slice), Size = len(body), Hash and Metadata those of the stored version; createObject passes to PutObject the request's bucket/key, a hashingReader over the request body (directly or through the chunk decoder) and the declared size; metadataHeaders keeps exactly the documented headers; CopyObject reads the source key and writes the destination key; getObject/headObject serve the object read for (bucket, key, version); response headers are observed through ghosts of the writer's header map: writeGetOrHeadObjectResponse sets ETag to quote(hex(obj.Hash)) and x-amz-version-id to the object's version, writeHeader/headObject/getObject set Content-Length, createObject sets ETag.",
   note="Header values other than ETag and the version id are only known to be set, not what they are (fmt.Sprintf is uninterpreted); the metadata-header loop of writeGetOrHeadObjectResponse sets every stored metadata entry as a header with its stored value (except the three names the function overwrites afterwards). Not modelled: md5 and hex themselves (uninterpreted but the same symbol on both sides), the browser-form POST path beyond safety, BSON/JSON encodings. Bolt and afero backends are outside the verified set, so 'on every bundled backend' is not decided. A heap array sliced and then written through its own name is not tracked through the slice (DESIGN.md 12.2).",
   technique=T, design="7 (C01), 12"),
 "C13": dict(category="proof",
   text="bucketObject.Iterator and bucketObjectIterator.Seek/Next/Value/Close are verified against the skiplist model (no call on a nil iterator: D11 fixed; Next yields a non-nil version, the current version last; a failed Seek ends the iteration); s3mem ListBucketVersions is verified for panic-freedom, len(Versions) <= MaxKeys when MaxKeys > 0, the store being unchanged, lock balance, and the clause taken from the statement that a truncated response carries next markers — which fails on the unchanged tree and is recorded as known finding D10.",
   note="Not under contract: exactness of the version listing (every stored version exactly once), the IsLatest flag per entry, grouping by key, marker semantics of Seek (inclusive for the current version, exclusive for archived ones). The check therefore detects changes to iteration safety, the page limit and the markers, not to which versions are listed.",
   technique=T, design="7 (C13), 12"),
}
na = {
 "C07": "not applicable: the property quantifies over schedules of concurrent requests (linearizability, data races, deadlock); a sequential weakest-precondition calculus over one function at a time has no notion of interleaving, and the installed solvers/back ends offer no concurrency reasoning for Go. The contract-shaped necessary condition that does exist (every mutex is returned in the state it was found in, Lock only on a free mutex) is discharged as part of C09's lock: obligations and is not presented as deciding C07 (DESIGN.md sections 11 and 12.5)",
 "C15": "not applicable: restart/crash durability rests on bbolt's commit protocol, OS file semantics and BSON/JSON encoders, none of which is /repo code a function contract can express (DESIGN.md section 11)",
}
pending = []
checks=[]
for pid,c in sorted(claimed.items()):
    checks.append({
      "property_id": pid,
      "quick_cmd": f"bin/gvc check -p {pid} -tier quick",
      "thorough_cmd": f"bin/gvc check -p {pid} -tier thorough",
      "evidence_file": f"/verif/evidence/{pid}.json",
      "replay_cmd_template": "cat {path}",
      "engine": "gvc",
      "level_claimed": {"category": c["category"], "text": c["text"], "design_ref": c["design"]},
      "level_note": c["note"],
      "technique": c["technique"],
    })
nas=[{"property_id":k,"reason":v} for k,v in sorted(na.items())]
for p in pending:
    if p not in claimed:
        nas.append({"property_id":p,"reason":"not claimed yet: contracts for its carrier functions are not discharged in this revision (work in progress, see DESIGN.md section 10)"})
m={
 "version":1,
 "setup_cmd":"cd gvc && GOFLAGS=-mod=mod GOPROXY=off GOSUMDB=off GOTOOLCHAIN=local go build -o ../bin/gvc .",
 "hooks":{"guard":"verif","enable":"go build -tags verif (gvc loads /repo with -tags=verif; the tag only adds comment-only contract files and pure spec functions)",
   "baseline_off_cmd":"cd /repo && GOFLAGS=-mod=mod GOPROXY=off GOSUMDB=off go test -vet=off -count=1 ./...",
   "source_commits":[],"add_only":True},
 "engines":[{"name":"gvc","path":"/verif/gvc","serves_properties":sorted(claimed.keys()),"kind_free_text":"verification-condition generator for Go (go/ssa naive form + //@ contracts) with SMT back ends z3 4.8.12, z3 5.1.0, cvc5 1.0.3"}],
 "checks":checks,
 "not_applicable":sorted(nas,key=lambda x:x["property_id"]),
 "notes":"Contracts live in /repo/**/contracts_verif.go (build tag verif) and /verif/libcontracts/*.gvc (assumed library contracts). known_findings.json lists recorded findings and fix: commits.",
}
import subprocess
hooks=subprocess.run(["git","-C","/repo","log","--format=%h %s"],capture_output=True,text=True).stdout.splitlines()
m["hooks"]["source_commits"]=[h.split()[0] for h in hooks if "verif hook" in h]
json.dump(m,open("/verif/MANIFEST.json","w"),indent=1)
print("claimed:",sorted(claimed.keys()))
