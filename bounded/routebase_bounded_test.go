package gofakes3

// Bounded stand-in for the slash-normalisation part of C16 (strings.Trim + SplitN
// decomposition in routeBase is outside solver reach): every path over the
// alphabet {a, /, .} up to a length bound is sent through the real routeBase with
// a recording backend; the bucket and key it addresses must be those of the
// specification, and must not change when slashes are added in front or at the end.
import (
	"fmt"
	"io"
	"net/http/httptest"
	"os"
	"strconv"
	"strings"
	"testing"
)

type gvcRecBackend struct {
	Backend
	bucket, key string
	calls       int
}

func (b *gvcRecBackend) BucketExists(name string) (bool, error) { b.bucket = name; b.calls++; return true, nil }
func (b *gvcRecBackend) HeadObject(bucket, key string) (*Object, error) {
	b.bucket, b.key = bucket, key
	return nil, KeyNotFound(key)
}
func (b *gvcRecBackend) ListBucket(name string, prefix *Prefix, page ListBucketPage) (*ObjectList, error) {
	b.bucket, b.key = name, ""
	return NewObjectList(), nil
}
func (b *gvcRecBackend) ListBuckets() ([]BucketInfo, error) { b.bucket, b.key = "", ""; return nil, nil }

func gvcSpecSplit(p string) (bucket, key string) {
	for strings.HasPrefix(p, "/") {
		p = p[1:]
	}
	for strings.HasSuffix(p, "/") {
		p = p[:len(p)-1]
	}
	if i := strings.Index(p, "/"); i >= 0 {
		return p[:i], p[i+1:]
	}
	return p, ""
}

func TestGvcBoundedRouteBase(t *testing.T) {
	maxLen := 7
	if v, err := strconv.Atoi(os.Getenv("GVC_BOUND")); err == nil {
		maxLen = v
	}
	rec := &gvcRecBackend{}
	g := New(rec)
	cases := 0
	address := func(path, method string) (string, string) {
		rec.bucket, rec.key = "?", "?"
		rq := httptest.NewRequest(method, "http://x/", nil)
		rq.URL.Path = path
		w := httptest.NewRecorder()
		g.routeBase(w, rq)
		io.Copy(io.Discard, w.Body)
		return rec.bucket, rec.key
	}
	var rec1 func(prefix []byte)
	fail := 0
	rec1 = func(prefix []byte) {
		p := "/" + string(prefix)
		wb, wk := gvcSpecSplit(p)
		method := "HEAD"
		if wk == "" {
			method = "GET"
		}
		cases++
		for _, variant := range []string{p, "//" + p, p + "/", "/" + p + "//"} {
			b, k := address(variant, method)
			if wb == "" {
				if b != "" && b != "?" {
					fail++
					fmt.Printf("BOUNDED-FAIL path %q addressed bucket %q, specification: service root\n", variant, b)
				}
				continue
			}
			if b != wb || k != wk {
				fail++
				if fail < 5 {
					fmt.Printf("BOUNDED-FAIL path %q addressed (%q, %q), specification (%q, %q)\n", variant, b, k, wb, wk)
				}
			}
		}
		if len(prefix) == maxLen {
			return
		}
		for _, c := range []byte("a/.") {
			rec1(append(prefix, c))
		}
	}
	rec1(nil)
	if fail == 0 {
		fmt.Printf("BOUNDED-OK cases=%d bound=%d\n", cases, maxLen)
	} else {
		t.Fatalf("%d mismatches", fail)
	}
}
