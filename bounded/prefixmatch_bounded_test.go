package gofakes3

// Bounded stand-in for Prefix.Match (C03/C04/C13/C14): the contract of Match is
// `nobody` — its result is named by the uninterpreted functions mOK / mCommon /
// mPart that the listing contracts are stated over, because its body
// (strings.Split / TrimLeft / Join over slices of strings) is outside solver
// reach. This test ties those functions to the wording of C03 on the domain the
// property quantifies over: every key and prefix over {a, b, <delim>} up to a
// length bound, keys neither starting nor ending with the delimiter, prefixes not
// starting with it, delimiter absent, "/" or another single character.
//
//	match        iff the key starts with the prefix
//	common       iff a delimiter is given and occurs in the key after the prefix
//	matched part = prefix + the key's segment up to and including that delimiter
import (
	"fmt"
	"os"
	"strconv"
	"strings"
	"testing"
)

func gvcSpecMatch(prefix, delim, key string) (ok, common bool, part string) {
	if !strings.HasPrefix(key, prefix) {
		return false, false, ""
	}
	if delim == "" {
		return true, false, ""
	}
	rest := key[len(prefix):]
	if i := strings.Index(rest, delim); i >= 0 {
		return true, true, prefix + rest[:i+len(delim)]
	}
	return true, false, ""
}

func gvcEnum(alphabet string, maxLen int, f func(s string)) {
	var rec func(p []byte)
	rec = func(p []byte) {
		f(string(p))
		if len(p) == maxLen {
			return
		}
		for i := 0; i < len(alphabet); i++ {
			rec(append(p, alphabet[i]))
		}
	}
	rec(nil)
}

func TestGvcBoundedPrefixMatch(t *testing.T) {
	maxLen := 6
	if v, err := strconv.Atoi(os.Getenv("GVC_BOUND")); err == nil {
		maxLen = v
	}
	cases, fail := 0, 0
	for _, delim := range []string{"", "/", "b"} {
		alphabet := "ab/"
		gvcEnum(alphabet, maxLen, func(key string) {
			if key == "" || (delim != "" && (strings.HasPrefix(key, delim) || strings.HasSuffix(key, delim))) {
				return
			}
			gvcEnum(alphabet, maxLen, func(prefix string) {
				if delim != "" && strings.HasPrefix(prefix, delim) {
					return
				}
				var variants []Prefix
				p := Prefix{HasPrefix: prefix != "", Prefix: prefix, HasDelimiter: delim != "", Delimiter: delim}
				variants = append(variants, p)
				if prefix == "" {
					// NewPrefix keeps HasPrefix for an explicitly empty prefix
					variants = append(variants, Prefix{HasPrefix: true, Prefix: "", HasDelimiter: delim != "", Delimiter: delim})
				}
				wantOK, wantCommon, wantPart := gvcSpecMatch(prefix, delim, key)
				for _, pf := range variants {
					cases++
					var m PrefixMatch
					ok := pf.Match(key, &m)
					bad := ok != wantOK
					if ok && wantOK {
						bad = m.CommonPrefix != wantCommon || m.Key != key || (wantCommon && m.MatchedPart != wantPart) || (m.CommonPrefix && m.MatchedPart == "")
					}
					if ok2 := pf.Match(key, nil); ok2 != ok {
						bad = true
					}
					if bad {
						fail++
						if fail <= 5 {
							fmt.Printf("BOUNDED-FAIL Prefix%+v.Match(%q) = (%v, common=%v, part=%q), specification (%v, common=%v, part=%q)\n",
								pf, key, ok, m.CommonPrefix, m.MatchedPart, wantOK, wantCommon, wantPart)
						}
					}
				}
			})
		})
	}
	if fail == 0 {
		fmt.Printf("BOUNDED-OK cases=%d bound=%d\n", cases, maxLen)
	} else {
		t.Fatalf("%d mismatches", fail)
	}
}
