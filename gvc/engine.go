package main

import (
	"fmt"
	"sync"
	"go/ast"
	"go/token"
	"go/types"
	"os"
	"path/filepath"
	"regexp/syntax"
	"sort"
	"strconv"
	"strings"

	"golang.org/x/tools/go/packages"
	"golang.org/x/tools/go/ssa"
	"golang.org/x/tools/go/ssa/ssautil"
)

type Engine struct {
	known    *KnownFindings // recorded findings (read-only)
	repo     string
	verifDir string
	pkgs     []*packages.Package
	prog     *ssa.Program
	spkgs    []*ssa.Package
	specs    *SpecSet
	funcs    map[string]*ssa.Function // contract key -> function
	srcLines map[string][]string
	globals  map[*ssa.Global]*globalInfo
	specUFs  map[string]*specUF
	loadErrs []string
	mu       sync.Mutex
	immut    map[string]map[string]bool // component -> functions allowed to write it
	immutErr []string
}

type globalInfo struct {
	constant bool   // never assigned outside package initialisation
	regex    string // initialised with regexp.MustCompile(<literal>)
	hasRegex bool
	external bool
}

type specUF struct {
	name   string
	args   []types.Type
	result types.Type
	decl   func(u *Universe) string
}

var repoPkgs = []string{".", "./backend/s3mem", "./backend/s3bolt", "./backend/s3afero", "./internal/goskipiter"}

func loadEngine(repo, verifDir string) (*Engine, error) {
	e := &Engine{repo: repo, verifDir: verifDir, funcs: map[string]*ssa.Function{}, srcLines: map[string][]string{},
		globals: map[*ssa.Global]*globalInfo{}, specUFs: map[string]*specUF{}}
	cfg := &packages.Config{Mode: packages.LoadAllSyntax, Dir: repo, BuildFlags: []string{"-tags=verif"},
		Env: append(os.Environ(), "GOFLAGS=-mod=mod", "GOPROXY=off", "GOSUMDB=off", "GOTOOLCHAIN=local")}
	pkgs, err := packages.Load(cfg, repoPkgs...)
	if err != nil {
		return nil, err
	}
	for _, p := range pkgs {
		for _, pe := range p.Errors {
			e.loadErrs = append(e.loadErrs, pe.Error())
		}
	}
	if len(e.loadErrs) > 0 {
		return e, fmt.Errorf("package load errors: %s", strings.Join(e.loadErrs, "; "))
	}
	e.pkgs = pkgs
	e.prog, e.spkgs = ssautil.AllPackages(pkgs, ssa.NaiveForm)
	e.prog.Build()
	// contracts
	e.specs = newSpecSet()
	for _, p := range pkgs {
		for _, f := range p.GoFiles {
			if strings.HasSuffix(f, "contracts_verif.go") {
				e.specs.parseFile(f, false, p.Types.Name())
			}
		}
	}
	libs, _ := filepath.Glob(filepath.Join(verifDir, "libcontracts", "*.gvc"))
	sort.Strings(libs)
	for _, f := range libs {
		e.specs.parseFile(f, true, "")
	}
	// index functions
	for _, sp := range e.spkgs {
		if sp == nil {
			continue
		}
		isRepo := false
		for _, p := range pkgs {
			if p.Types == sp.Pkg {
				isRepo = true
			}
		}
		if !isRepo {
			continue
		}
		for _, m := range sp.Members {
			switch x := m.(type) {
			case *ssa.Function:
				e.indexFunc(x)
			case *ssa.Type:
				for _, t := range []types.Type{x.Type(), types.NewPointer(x.Type())} {
					ms := e.prog.MethodSets.MethodSet(t)
					for i := 0; i < ms.Len(); i++ {
						if f := e.prog.MethodValue(ms.At(i)); f != nil && f.Pkg == sp && f.Synthetic == "" {
							e.indexFunc(f)
						}
					}
				}
			}
		}
	}
	e.scanGlobals()
	e.resolveImmutable()
	e.resolveUFs()
	return e, nil
}

func (e *Engine) indexFunc(f *ssa.Function) {
	key := fnDisplay(f)
	if _, ok := e.funcs[key]; ok {
		return
	}
	e.funcs[key] = f
	for _, a := range f.AnonFuncs {
		e.indexAnon(a)
	}
}

func (e *Engine) indexAnon(f *ssa.Function) {
	e.funcs[anonKey(f)] = f
	for _, a := range f.AnonFuncs {
		e.indexAnon(a)
	}
}

func anonKey(f *ssa.Function) string {
	// Name() of an anonymous function is Parent$N
	p := f.Parent()
	for p.Parent() != nil {
		p = p.Parent()
	}
	return strings.TrimSuffix(fnDisplay(p), p.Name()) + f.Name()
}

func (e *Engine) funcKey(f *ssa.Function) string {
	if f.Parent() != nil {
		return anonKey(f)
	}
	if f.Pkg == nil {
		return f.String()
	}
	return fnDisplay(f)
}

func (e *Engine) contractFor(f *ssa.Function) *Contract {
	return e.specs.Contracts[e.funcKey(f)]
}

func (e *Engine) isRepoPkg(p *types.Package) bool {
	for _, q := range e.pkgs {
		if q.Types == p {
			return true
		}
	}
	return false
}

func (e *Engine) isSpecFunc(f *ssa.Function) bool {
	if f.Pkg == nil || !e.isRepoPkg(f.Pkg.Pkg) {
		return false
	}
	pos := e.prog.Fset.Position(f.Pos())
	return strings.HasSuffix(pos.Filename, "contracts_verif.go")
}

func (e *Engine) specFunc(pkg *types.Package, name string) *ssa.Function {
	if i := strings.Index(name, "."); i >= 0 {
		if p := e.pkgByName(name[:i]); p != nil {
			pkg = p
			name = name[i+1:]
		}
	}
	if pkg == nil {
		return nil
	}
	sp := e.prog.Package(pkg)
	if sp == nil {
		return nil
	}
	f := sp.Func(name)
	if f != nil && e.isSpecFunc(f) {
		return f
	}
	return nil
}

func (e *Engine) pkgByName(name string) *types.Package {
	for _, p := range e.pkgs {
		if p.Types.Name() == name {
			return p.Types
		}
	}
	for _, p := range e.prog.AllPackages() {
		if p.Pkg.Name() == name {
			return p.Pkg
		}
	}
	return nil
}

func (e *Engine) rootPkg() *types.Package {
	for _, p := range e.pkgs {
		if p.Types.Name() == "gofakes3" {
			return p.Types
		}
	}
	return nil
}

func (e *Engine) pkgOfContract(ct *Contract, callee *ssa.Function) *types.Package {
	if callee != nil {
		if callee.Pkg != nil {
			return callee.Pkg.Pkg
		}
		p := callee
		for p.Parent() != nil {
			p = p.Parent()
		}
		if p.Pkg != nil {
			return p.Pkg.Pkg
		}
	}
	if ct.Pkg != "" {
		if p := e.pkgByName(ct.Pkg); p != nil {
			return p
		}
	}
	// iface:pkg.Iface.Method / lib:pkg.Func
	k := ct.Key
	if i := strings.Index(k, ":"); i >= 0 {
		k = k[i+1:]
	}
	k = strings.TrimLeft(k, "(*")
	if i := strings.Index(k, "."); i >= 0 {
		if p := e.pkgByName(k[:i]); p != nil {
			return p
		}
	}
	return e.rootPkg()
}

func (e *Engine) ghostType(g *GhostDecl) types.Type {
	// result type after indexing all dimensions
	s := g.Sort
	for strings.HasPrefix(s, "(Array ") {
		_, s = arraySorts(s)
	}
	switch s {
	case "Int":
		return intT
	case "Bool":
		return boolT
	case "Str", "String":
		return strT
	case "If":
		return types.NewInterfaceType(nil, nil)
	case "Sl":
		return types.NewSlice(types.Typ[types.Byte]) // slice-sorted ghosts are read as byte slices unless a builtin says otherwise (slstr)
	}
	return nil
}

func (e *Engine) globalFor(v *types.Var) *ssa.Global {
	if v.Pkg() == nil {
		return nil
	}
	sp := e.prog.Package(v.Pkg())
	if sp == nil {
		return nil
	}
	g, _ := sp.Members[v.Name()].(*ssa.Global)
	return g
}

// scanGlobals finds package-level variables that are only assigned during
// package initialisation, and regular expressions compiled from literals.
func (e *Engine) scanGlobals() {
	assigned := map[*ssa.Global]bool{}
	for _, sp := range e.spkgs {
		if sp == nil || !e.isRepoPkg(sp.Pkg) {
			continue
		}
		var visit func(f *ssa.Function)
		visit = func(f *ssa.Function) {
			isInit := f.Name() == "init" || strings.HasPrefix(f.Name(), "init#")
			for _, b := range f.Blocks {
				for _, ins := range b.Instrs {
					if s, ok := ins.(*ssa.Store); ok {
						if g, ok := s.Addr.(*ssa.Global); ok && !isInit {
							assigned[g] = true
						}
					}
					// address-taken globals (&g passed around) are treated as assigned
					if c, ok := ins.(ssa.CallInstruction); ok && !isInit {
						for _, a := range c.Common().Args {
							if g, ok := a.(*ssa.Global); ok {
								assigned[g] = true
							}
						}
					}
				}
			}
			for _, a := range f.AnonFuncs {
				visit(a)
			}
		}
		for _, m := range sp.Members {
			switch x := m.(type) {
			case *ssa.Function:
				visit(x)
			case *ssa.Type:
				for _, t := range []types.Type{x.Type(), types.NewPointer(x.Type())} {
					ms := e.prog.MethodSets.MethodSet(t)
					for i := 0; i < ms.Len(); i++ {
						if f := e.prog.MethodValue(ms.At(i)); f != nil && f.Pkg == sp {
							visit(f)
						}
					}
				}
			}
		}
	}
	for _, sp := range e.prog.AllPackages() {
		if sp == nil {
			continue
		}
		for _, m := range sp.Members {
			if g, ok := m.(*ssa.Global); ok {
				e.globals[g] = &globalInfo{constant: !assigned[g], external: !e.isRepoPkg(sp.Pkg)}
			}
		}
	}
	// regex literals: var X = regexp.MustCompile(`...`)
	for _, p := range e.pkgs {
		for _, f := range p.Syntax {
			for _, d := range f.Decls {
				gd, ok := d.(*ast.GenDecl)
				if !ok || gd.Tok != token.VAR {
					continue
				}
				for _, s := range gd.Specs {
					vs := s.(*ast.ValueSpec)
					for i, n := range vs.Names {
						if i >= len(vs.Values) {
							continue
						}
						call, ok := vs.Values[i].(*ast.CallExpr)
						if !ok || len(call.Args) != 1 {
							continue
						}
						sel, ok := call.Fun.(*ast.SelectorExpr)
						if !ok || sel.Sel.Name != "MustCompile" {
							continue
						}
						lit, ok := call.Args[0].(*ast.BasicLit)
						if !ok {
							continue
						}
						pat, err := strconv.Unquote(lit.Value)
						if err != nil {
							continue
						}
						if obj, ok := p.TypesInfo.Defs[n].(*types.Var); ok {
							if g := e.globalFor(obj); g != nil && e.globals[g] != nil {
								e.globals[g].regex = pat
								e.globals[g].hasRegex = true
							}
						}
					}
				}
			}
		}
	}
}

// globalConst returns the constant value of a package-level variable that is
// never reassigned, or nil.
func (e *Engine) globalConst(fx *FuncCtx, g *ssa.Global) *Val {
	gi := e.globals[g]
	if gi == nil || !gi.constant {
		return nil
	}
	t := deref(g.Type())
	name := "g$" + sanitize(g.Pkg.Pkg.Name()+"."+g.Name())
	s := fx.u.sortOf(t)
	v := &Val{T: name, Ty: t}
	if gi.hasRegex {
		v.Re = gi.regex
		v.HasRe = true
	}
	if _, done := fx.u.ufs[name]; done {
		return v
	}
	fx.u.uf(name, "(declare-const "+name+" "+s+")")
	switch t.Underlying().(type) {
	case *types.Interface:
		if gi.external {
			// each external interface-typed variable holds a value of a type no repository code names
			fx.u.axioms = append(fx.u.axioms, fmt.Sprintf("(assert (= (if_tag %s) %d))", name, fx.u.tagOfKey("extglobal:"+name)))
			fx.u.extIfaces = append(fx.u.extIfaces, name)
		}
	case *types.Pointer:
		// initialised with a non-nil allocation in every case present in /repo
		if e.globalInitNonNil(g) {
			fx.emit("(assert (and (> " + name + " 0) (<= " + name + " alloc@0)))")
		}
	}
	return v
}

// globalInitNonNil: the initialiser of g is an allocation or a constructor call result (&T{}, new, regexp.MustCompile ...).
func (e *Engine) globalInitNonNil(g *ssa.Global) bool {
	init := g.Pkg.Func("init")
	if init == nil {
		return false
	}
	for _, b := range init.Blocks {
		for _, ins := range b.Instrs {
			if s, ok := ins.(*ssa.Store); ok && s.Addr == g {
				switch v := s.Val.(type) {
				case *ssa.Alloc:
					return true
				case *ssa.Call:
					if f := v.Call.StaticCallee(); f != nil {
						switch shortFuncKey(f) {
						case "regexp.MustCompile", "(*big.Int).SetInt64":
							return true
						}
					}
				}
			}
		}
	}
	return false
}

// describe returns the trimmed source line of an instruction (stable site id).
func (e *Engine) describe(fn *ssa.Function, ins ssa.Instruction) string {
	pos := ins.Pos()
	if !pos.IsValid() {
		// fall back to the closest preceding instruction with a position
		b := ins.Block()
		idx := -1
		for i, x := range b.Instrs {
			if x == ins {
				idx = i
				break
			}
		}
		for i := idx - 1; i >= 0 && !pos.IsValid(); i-- {
			pos = b.Instrs[i].Pos()
		}
		for i := idx + 1; i < len(b.Instrs) && !pos.IsValid(); i++ {
			pos = b.Instrs[i].Pos()
		}
		if !pos.IsValid() {
			return "?"
		}
	}
	p := e.prog.Fset.Position(pos)
	e.mu.Lock()
	defer e.mu.Unlock()
	lines, ok := e.srcLines[p.Filename]
	if !ok {
		data, err := os.ReadFile(p.Filename)
		if err == nil {
			lines = strings.Split(string(data), "\n")
		}
		e.srcLines[p.Filename] = lines
	}
	if p.Line-1 < len(lines) && p.Line >= 1 {
		s := strings.Join(strings.Fields(lines[p.Line-1]), " ")
		if i := strings.Index(s, " //"); i > 0 {
			s = s[:i]
		}
		if len(s) > 70 {
			s = s[:70]
		}
		return s
	}
	return "?"
}

// ---- regular expressions ----

func (fx *FuncCtx) regexMatch(pat, s string) string {
	if !fx.u.strings {
		n := fmt.Sprintf("re$%d", len(fx.regexes))
		for i, p := range fx.regexes {
			if p == pat {
				n = fmt.Sprintf("re$%d", i)
			}
		}
		if n == fmt.Sprintf("re$%d", len(fx.regexes)) {
			fx.regexes = append(fx.regexes, pat)
		}
		fx.u.uf(n, "(declare-fun "+n+" (Str) Bool) ; "+strconv.Quote(pat))
		return "(" + n + " " + s + ")"
	}
	re, err := syntax.Parse(pat, syntax.Perl)
	if err != nil {
		fx.clauseErrs = append(fx.clauseErrs, "regexp: "+err.Error())
		return "false"
	}
	re = re.Simplify()
	rl, anchoredStart, anchoredEnd, err := regexToRegLan(re)
	if err != nil {
		fx.clauseErrs = append(fx.clauseErrs, "regexp "+pat+": "+err.Error())
		return "false"
	}
	if !anchoredStart {
		rl = "(re.++ re.all " + rl + ")"
	}
	if !anchoredEnd {
		rl = "(re.++ " + rl + " re.all)"
	}
	fx.regexes = append(fx.regexes, pat)
	return "(str.in_re " + s + " " + rl + ")"
}

// regexToRegLan translates a regexp/syntax tree to an SMT-LIB RegLan term.
// Anchors are accepted only at the very start/end of the pattern.
func regexToRegLan(re *syntax.Regexp) (string, bool, bool, error) {
	start, end := false, false
	subs := []*syntax.Regexp{re}
	if re.Op == syntax.OpConcat {
		subs = re.Sub
	}
	if len(subs) > 0 && (subs[0].Op == syntax.OpBeginText || subs[0].Op == syntax.OpBeginLine) {
		start = true
		subs = subs[1:]
	}
	if len(subs) > 0 && (subs[len(subs)-1].Op == syntax.OpEndText || subs[len(subs)-1].Op == syntax.OpEndLine) {
		end = true
		subs = subs[:len(subs)-1]
	}
	var parts []string
	for _, s := range subs {
		t, err := reTerm(s)
		if err != nil {
			return "", false, false, err
		}
		parts = append(parts, t)
	}
	switch len(parts) {
	case 0:
		return `(str.to_re "")`, start, end, nil
	case 1:
		return parts[0], start, end, nil
	}
	return "(re.++ " + strings.Join(parts, " ") + ")", start, end, nil
}

func reTerm(re *syntax.Regexp) (string, error) {
	switch re.Op {
	case syntax.OpEmptyMatch:
		return `(str.to_re "")`, nil
	case syntax.OpLiteral:
		var b strings.Builder
		for _, r := range re.Rune {
			if r > 127 {
				return "", fmt.Errorf("non-ASCII literal")
			}
			b.WriteRune(r)
		}
		if re.Flags&syntax.FoldCase != 0 {
			return "", fmt.Errorf("case folding unsupported")
		}
		return "(str.to_re " + smtStringLit(b.String()) + ")", nil
	case syntax.OpCharClass:
		var alts []string
		for i := 0; i+1 < len(re.Rune); i += 2 {
			lo, hi := re.Rune[i], re.Rune[i+1]
			if hi > 255 {
				hi = 255
			}
			if lo > 255 {
				continue
			}
			if lo == hi {
				alts = append(alts, "(str.to_re "+smtCharLit(lo)+")")
			} else {
				alts = append(alts, "(re.range "+smtCharLit(lo)+" "+smtCharLit(hi)+")")
			}
		}
		if len(alts) == 0 {
			return "re.none", nil
		}
		if len(alts) == 1 {
			return alts[0], nil
		}
		return "(re.union " + strings.Join(alts, " ") + ")", nil
	case syntax.OpAnyCharNotNL, syntax.OpAnyChar:
		return "re.allchar", nil
	case syntax.OpCapture:
		return reTerm(re.Sub[0])
	case syntax.OpStar:
		t, err := reTerm(re.Sub[0])
		return "(re.* " + t + ")", err
	case syntax.OpPlus:
		t, err := reTerm(re.Sub[0])
		return "(re.+ " + t + ")", err
	case syntax.OpQuest:
		t, err := reTerm(re.Sub[0])
		return "(re.opt " + t + ")", err
	case syntax.OpRepeat:
		t, err := reTerm(re.Sub[0])
		if err != nil {
			return "", err
		}
		if re.Max < 0 {
			return fmt.Sprintf("(re.++ ((_ re.^ %d) %s) (re.* %s))", re.Min, t, t), nil
		}
		return fmt.Sprintf("((_ re.loop %d %d) %s)", re.Min, re.Max, t), nil
	case syntax.OpConcat:
		var parts []string
		for _, s := range re.Sub {
			t, err := reTerm(s)
			if err != nil {
				return "", err
			}
			parts = append(parts, t)
		}
		return "(re.++ " + strings.Join(parts, " ") + ")", nil
	case syntax.OpAlternate:
		var parts []string
		for _, s := range re.Sub {
			t, err := reTerm(s)
			if err != nil {
				return "", err
			}
			parts = append(parts, t)
		}
		return "(re.union " + strings.Join(parts, " ") + ")", nil
	}
	return "", fmt.Errorf("unsupported regexp construct %s", re.Op)
}

// ---- engine built-in models for library functions ----

func (fx *FuncCtx) builtinModel(st *State, key string, callee *ssa.Function, args []*Val, site ssa.Instruction, resT types.Type, pos token.Pos) (*Val, bool) {
	switch key {
	case "(*sync.Mutex).Lock", "(*sync.RWMutex).Lock", "(*sync.Mutex).Unlock", "(*sync.RWMutex).Unlock",
		"(*sync.RWMutex).RLock", "(*sync.RWMutex).RUnlock":
		p := args[0]
		a := fx.asAddr(p)
		cur := fx.loadQuiet(st, a)
		if cur.T == "" {
			return &Val{Ty: resT}, true
		}
		var need, next, what string
		switch {
		case strings.HasSuffix(key, ").Lock"):
			need, next, what = "(= "+cur.T+" 0)", "(- 1)", "Lock of a mutex that may already be held (self-deadlock)"
		case strings.HasSuffix(key, ").Unlock"):
			need, next, what = "(= "+cur.T+" (- 1))", "0", "Unlock of a mutex that is not write-locked"
		case strings.HasSuffix(key, ").RLock"):
			need, next, what = "(>= "+cur.T+" 0)", "(+ "+cur.T+" 1)", "RLock of a mutex that may be write-locked (self-deadlock)"
		default:
			need, next, what = "(> "+cur.T+" 0)", "(- "+cur.T+" 1)", "RUnlock of a mutex that is not read-locked"
		}
		ob := fx.oblige(st, "lock", fx.siteName("lock", fx.describe(site)), need, pos, true)
		if ob != nil {
			ob.Expr = what + " in " + fx.describe(site)
		}
		fx.store(st, a, &Val{T: next, Ty: a.Ty})
		return &Val{Ty: resT}, true
	case "fmt.Fscanf", "fmt.Fscan", "fmt.Fscanln":
		// reads from the reader; writes a scanned value through each pointer argument.
		rd := args[0]
		g := fx.eng.specs.Ghosts["rd_pos"]
		hl := fx.eng.specs.Ghosts["hdrlen"]
		hv := fx.eng.specs.Ghosts["hdrval"]
		res := fx.freshVal(st, "r_Fscanf", resT)
		okT := "(= (if_tag " + res.Tup[1].T + ") 0)"
		fx.assume(st, "(>= "+res.Tup[0].T+" 0)")
		var pos0 string
		if g != nil && hl != nil {
			h := fx.heapGet(st, "G$rd_pos", g.Sort)
			pos0 = fx.define("fpos", "Int", "(select "+h+" "+rd.T+")")
			np := fx.declare("fpos1", "Int")
			hlT := fx.heapGet(st, "G$hdrlen", hl.Sort)
			fx.assume(st, "(>= "+np+" "+pos0+")")
			fx.assume(st, imp(okT, "(= "+np+" (+ "+pos0+" (select "+hlT+" "+pos0+")))"))
			// a successful scan of "%x;" consumed at least one digit and the semicolon
			fx.assume(st, imp(okT, "(>= (select "+hlT+" "+pos0+") 2)"))
			if gl := fx.eng.specs.Ghosts["rd_len"]; gl != nil {
				fx.assume(st, "(<= "+np+" (select "+fx.heapGet(st, "G$rd_len", gl.Sort)+" "+rd.T+"))")
			}
			fx.heapSet(st, "G$rd_pos", g.Sort, "(store "+h+" "+rd.T+" "+np+")")
		}
		call := site.(ssa.CallInstruction).Common()
		va := call.Args[len(call.Args)-1]
		n, ref := fx.varargsOf(st, va)
		if n < 0 {
			fx.note("fmt.Fscanf with a non-literal argument list: heap havocked")
			fx.havocAll(st)
			return res, true
		}
		_ = ref
		elems := varargElems(va, n)
		for i := 0; i < n; i++ {
			var target string
			if mi, ok := elems[i].(*ssa.MakeInterface); ok {
				if t, ok := fx.ptrTerm(st, fx.val(st, mi.X)); ok && isInteger(deref(mi.X.Type())) {
					target = t
				}
			}
			if target == "" {
				fx.note("fmt.Fscanf target %d is not a pointer to an integer variable: heap havocked", i)
				fx.havocAll(st)
				return res, true
			}
			cn, ccs := cellComp(fx.u, types.Typ[types.Int])
			ch := fx.heapGet(st, cn, ccs)
			nv := fx.declare("scan", "Int")
			fx.assume(st, fx.wf(st, nv, types.Typ[types.Int], 0))
			if hv != nil && pos0 != "" && i == 0 {
				fx.assume(st, imp(okT, "(= "+nv+" (select "+fx.heapGet(st, "G$hdrval", hv.Sort)+" "+pos0+"))"))
			}
			fx.heapSet(st, cn, ccs, "(store "+ch+" "+target+" "+nv+")")
		}
		return res, true
	case "xml.Unmarshal", "(*xml.Decoder).Decode", "(*xml.Decoder).DecodeElement", "json.Unmarshal":
		// decodes into the object its interface argument points to: that object's fields become unknown
		call := site.(ssa.CallInstruction).Common()
		pre := st.clone()
		idx := 1
		if key == "(*xml.Decoder).Decode" || key == "(*xml.Decoder).DecodeElement" {
			idx = 1 // receiver is args[0]
		}
		if idx < len(call.Args) {
			if !fx.havocPointee(st, call.Args[idx]) {
				fx.note("%s into a value that is not a pointer to a local struct: heap havocked", key)
				fx.havocAll(st)
			}
		}
		old := st.Alloc
		st.Alloc = fx.declare("alloc", "Int")
		fx.emit(fmt.Sprintf("(assert (>= %s %s))", st.Alloc, old))
		res := fx.freshVal(st, "r_decode", resT)
		// the log of the decoder's verdict (ghosts xu_count / xu_ok of libcontracts/http.gvc), when declared
		if gc, ok := fx.eng.specs.Ghosts["xu_count"]; ok && key == "xml.Unmarshal" && res.T != "" {
			if gk, ok := fx.eng.specs.Ghosts["xu_ok"]; ok {
				before := fx.heapGet(pre, "G$xu_count", gc.Sort)
				fx.heapSet(st, "G$xu_count", gc.Sort, "(+ "+before+" 1)")
				fx.heapSet(st, "G$xu_ok", gk.Sort, "(= (if_tag "+res.T+") 0)")
			}
		}
		return res, true
	case "(*regexp.Regexp).MatchString":
		if args[0].HasRe {
			return &Val{T: fx.define("rm", "Bool", fx.regexMatch(args[0].Re, args[1].T)), Ty: resT}, true
		}
	case "strings.HasPrefix":
		v := &Val{T: fx.define("hp", "Bool", fx.hasPrefix(args[0].T, args[1].T)), Ty: resT}
		fx.assume(st, imp(v.T, "(<= "+fx.u.slen(args[1].T)+" "+fx.u.slen(args[0].T)+")"))
		return v, true
	case "strings.HasSuffix":
		v := &Val{T: fx.define("hs", "Bool", fx.hasSuffix(args[0].T, args[1].T)), Ty: resT}
		fx.assume(st, imp(v.T, "(<= "+fx.u.slen(args[1].T)+" "+fx.u.slen(args[0].T)+")"))
		return v, true
	case "strings.Contains":
		return &Val{T: fx.define("sc", "Bool", fx.strContains(args[0].T, args[1].T)), Ty: resT}, true
	case "strings.Index":
		v := &Val{T: fx.define("si", "Int", fx.strIndex(args[0].T, args[1].T)), Ty: resT}
		fx.assume(st, fmt.Sprintf("(and (<= (- 1) %s) (=> (>= %s 0) (<= (+ %s %s) %s)))", v.T, v.T, v.T, fx.u.slen(args[1].T), fx.u.slen(args[0].T)))
		return v, true
	case "strings.IndexByte", "strings.LastIndexByte":
		var t string
		if fx.u.strings && key == "strings.IndexByte" {
			t = "(str.indexof " + args[0].T + " (str.from_code " + args[1].T + ") 0)"
		} else {
			n := fx.u.uf("pf$"+sanitize(key), "(declare-fun pf$"+sanitize(key)+" ("+fx.u.strSort()+" Int) Int)")
			t = "(" + n + " " + args[0].T + " " + args[1].T + ")"
		}
		v := &Val{T: fx.define("sib", "Int", t), Ty: resT}
		fx.assume(st, fmt.Sprintf("(and (<= (- 1) %s) (< %s %s))", v.T, v.T, fx.u.slen(args[0].T)))
		return v, true
	}
	return nil, false
}

// varargsOf recognises the compiler-built variadic slice (slice of a fresh
// [N]T array) and returns N and the array reference.
func (fx *FuncCtx) varargsOf(st *State, v ssa.Value) (int, string) {
	sl, ok := v.(*ssa.Slice)
	if !ok {
		return -1, ""
	}
	al, ok := sl.X.(*ssa.Alloc)
	if !ok {
		return -1, ""
	}
	arr, ok := deref(al.Type()).Underlying().(*types.Array)
	if !ok {
		return -1, ""
	}
	ref, ok := fx.ptrTerm(st, fx.val(st, al))
	if !ok {
		return -1, ""
	}
	return int(arr.Len()), ref
}

// ifaceMethod resolves "pkg.Iface.Method" to the method object.
func (e *Engine) ifaceMethod(key string) *types.Func {
	parts := strings.Split(key, ".")
	if len(parts) != 3 {
		return nil
	}
	p := e.pkgByName(parts[0])
	if p == nil {
		return nil
	}
	tn, ok := p.Scope().Lookup(parts[1]).(*types.TypeName)
	if !ok {
		return nil
	}
	it, ok := tn.Type().Underlying().(*types.Interface)
	if !ok {
		return nil
	}
	for i := 0; i < it.NumMethods(); i++ {
		if it.Method(i).Name() == parts[2] {
			return it.Method(i)
		}
	}
	return nil
}

// varargElems finds the values stored into the compiler-built variadic array.
func varargElems(v ssa.Value, n int) []ssa.Value {
	out := make([]ssa.Value, n)
	sl, ok := v.(*ssa.Slice)
	if !ok {
		return out
	}
	al, ok := sl.X.(*ssa.Alloc)
	if !ok {
		return out
	}
	for _, ins := range al.Block().Instrs {
		st, ok := ins.(*ssa.Store)
		if !ok {
			continue
		}
		ia, ok := st.Addr.(*ssa.IndexAddr)
		if !ok || ia.X != al {
			continue
		}
		if c, ok := ia.Index.(*ssa.Const); ok {
			if i := int(c.Int64()); i >= 0 && i < n {
				out[i] = st.Val
			}
		}
	}
	return out
}

// listCallees prints every callee of the repository functions with its classification.
func (e *Engine) listCallees(filter string) {
	count := map[string]int{}
	class := map[string]string{}
	var keys []string
	for k, f := range e.funcs {
		if filter != "" && !strings.Contains(k, filter) {
			continue
		}
		if e.isSpecFunc(f) {
			continue
		}
		for _, b := range f.Blocks {
			for _, ins := range b.Instrs {
				ci, ok := ins.(ssa.CallInstruction)
				if !ok {
					continue
				}
				c := ci.Common()
				var key, cl string
				if c.IsInvoke() {
					ks := ifaceKeys(c)
					key = "invoke " + ks[0]
					cl = "unknown"
					for _, k2 := range ks {
						if e.specs.Contracts["iface:"+k2] != nil {
							cl = "contract"
						} else if pureIface[k2] {
							cl = "pure"
						}
					}
				} else if sc := c.StaticCallee(); sc != nil {
					key = shortFuncKey(sc)
					switch {
					case e.contractFor(sc) != nil:
						cl = "contract"
					case e.specs.Contracts["lib:"+key] != nil:
						cl = "libcontract"
					case pureFuncs[key]:
						cl = "pure"
					case noEffectFuncs[key]:
						cl = "noeffect"
					case strings.HasPrefix(key, "(*sync."):
						cl = "model"
					default:
						cl = "unknown"
						if sc.Pkg != nil && e.isRepoPkg(sc.Pkg.Pkg) {
							cl = "repo-nocontract"
						}
					}
				} else if _, ok := c.Value.(*ssa.Builtin); ok {
					continue
				} else {
					key = "dynamic " + c.Value.Type().String()
					cl = "unknown"
				}
				if count[key] == 0 {
					keys = append(keys, key)
				}
				count[key]++
				class[key] = cl
			}
		}
	}
	sort.Slice(keys, func(i, j int) bool {
		if class[keys[i]] != class[keys[j]] {
			return class[keys[i]] < class[keys[j]]
		}
		return keys[i] < keys[j]
	})
	for _, k := range keys {
		fmt.Printf("%-16s %4d  %s\n", class[k], count[k], k)
	}
}

// smtCharLit renders one code point (0..255) as an SMT-LIB string literal.
func smtCharLit(r rune) string {
	if r >= 0x20 && r < 0x7f && r != '"' && r != '\\' {
		return "\"" + string(r) + "\""
	}
	return fmt.Sprintf("\"\\u{%x}\"", r)
}

// havocPointee forgets the fields of the struct object an interface value
// (built from a pointer) or a pointer points to.
func (fx *FuncCtx) havocPointee(st *State, v ssa.Value) bool {
	if mi, ok := v.(*ssa.MakeInterface); ok {
		v = mi.X
	}
	pt, ok := v.Type().Underlying().(*types.Pointer)
	if !ok {
		// an interface-typed parameter forwarded to the decoder (xmlDecodeBody): unknown pointee
		return false
	}
	pv := fx.val(st, v)
	if pv.Addr != nil && pv.Addr.Kind == ALocal {
		fx.havocEscaped(st, pv)
		return true
	}
	ref, ok := fx.ptrTerm(st, pv)
	if !ok || !isStruct(pt.Elem()) {
		return false
	}
	nv := fx.freshVal(st, "decoded", pt.Elem())
	fx.storeField(st, ref, pt.Elem(), nil, pt.Elem(), nv.T)
	return true
}

// resolveImmutable turns `immutable` declarations into heap component names and
// checks syntactically that no other repository function writes those fields
// or lets their address escape.
func (e *Engine) resolveImmutable() {
	e.immut = map[string]map[string]bool{}
	type fld struct {
		t   types.Type
		idx int
	}
	targets := map[string]fld{}
	for _, d := range e.specs.Immutable {
		pkg := e.pkgByName(d.Pkg)
		if pkg == nil {
			e.immutErr = append(e.immutErr, fmt.Sprintf("%s:%d: unknown package %s", d.File, d.Line, d.Pkg))
			continue
		}
		tn, ok := pkg.Scope().Lookup(d.Type).(*types.TypeName)
		if !ok {
			e.immutErr = append(e.immutErr, fmt.Sprintf("%s:%d: immutable: type %s no longer exists", d.File, d.Line, d.Type))
			continue
		}
		st, ok := tn.Type().Underlying().(*types.Struct)
		if !ok {
			continue
		}
		allowed := map[string]bool{}
		for _, f := range d.Init {
			allowed[d.Pkg+"."+f] = true
		}
		for _, fname := range d.Fields {
			found := false
			for i := 0; i < st.NumFields(); i++ {
				if st.Field(i).Name() == fname {
					c := compName(tn.Type(), []int{i})
					e.immut[c] = allowed
					targets[c] = fld{tn.Type(), i}
					found = true
				}
			}
			if !found {
				e.immutErr = append(e.immutErr, fmt.Sprintf("%s:%d: immutable: %s has no field %s", d.File, d.Line, d.Type, fname))
			}
		}
	}
	if len(targets) == 0 {
		return
	}
	var visit func(key string, f *ssa.Function)
	visit = func(key string, f *ssa.Function) {
		for _, b := range f.Blocks {
			for _, ins := range b.Instrs {
				fa, ok := ins.(*ssa.FieldAddr)
				if !ok {
					continue
				}
				root := deref(fa.X.Type())
				c := ""
				if _, isNamed := root.(*types.Named); isNamed {
					c = compName(root, []int{fa.Field})
				}
				allowed, isImm := e.immut[c]
				if !isImm || allowed[key] {
					continue
				}
				for _, ref := range *fa.Referrers() {
					switch r := ref.(type) {
					case *ssa.UnOp:
						// load
					case *ssa.Store:
						if r.Addr == fa {
							e.immutErr = append(e.immutErr, fmt.Sprintf("field declared immutable is written in %s (%s)", key, e.describe(f, r)))
						}
					case *ssa.FieldAddr, *ssa.DebugRef:
					default:
						e.immutErr = append(e.immutErr, fmt.Sprintf("address of a field declared immutable escapes in %s (%s)", key, e.describe(f, ref)))
					}
				}
			}
		}
	}
	for key, f := range e.funcs {
		if e.isSpecFunc(f) {
			continue
		}
		top := key
		if i := strings.Index(key, "$"); i > 0 {
			top = key[:i]
		}
		visit(top, f)
	}
	sort.Strings(e.immutErr)
}

// isImmutableFor reports whether comp is a constant inside the function with the given key.
func (e *Engine) isImmutableFor(comp, key string) bool {
	allowed, ok := e.immut[comp]
	if !ok {
		return false
	}
	if i := strings.Index(key, "$"); i > 0 {
		key = key[:i]
	}
	return !allowed[key]
}

// funcFieldSig finds the signature of a function-valued captured variable "Outer.var".
func (e *Engine) funcFieldSig(key string) *types.Signature {
	parts := strings.SplitN(key, ".", 2)
	if len(parts) != 2 {
		return nil
	}
	for _, f := range e.funcs {
		for _, fv := range f.FreeVars {
			p := fv.Parent()
			for p.Parent() != nil {
				p = p.Parent()
			}
			if p.Name() == parts[0] && fv.Name() == parts[1] {
				if sig, ok := deref(fv.Type()).Underlying().(*types.Signature); ok {
					return sig
				}
			}
		}
	}
	return nil
}

// resolveUFs registers the uninterpreted specification functions declared with `uf`.
func (e *Engine) resolveUFs() {
	for _, d := range e.specs.UFs {
		pkg := e.pkgByName(d.Pkg)
		if pkg == nil {
			pkg = e.rootPkg()
		}
		u := &specUF{name: "uf$" + d.Name}
		ok := true
		for _, a := range d.Args {
			t := e.resolveType(pkg, a)
			if t == nil {
				ok = false
			}
			u.args = append(u.args, t)
		}
		u.result = e.resolveType(pkg, d.Result)
		if !ok || u.result == nil {
			e.specs.Errors = append(e.specs.Errors, fmt.Sprintf("%s:%d: uf %s: unknown type", d.File, d.Line, d.Name))
			continue
		}
		uu := u
		u.decl = func(un *Universe) string {
			var as []string
			for _, t := range uu.args {
				as = append(as, un.sortOf(t))
			}
			return fmt.Sprintf("(declare-fun %s (%s) %s)", uu.name, strings.Join(as, " "), un.sortOf(uu.result))
		}
		e.specUFs[d.Name] = u
	}
}

// resolveType resolves a type expression in the scope of a package.
func (e *Engine) resolveType(pkg *types.Package, x ast.Expr) types.Type {
	switch t := x.(type) {
	case *ast.Ident:
		if b := types.Universe.Lookup(t.Name); b != nil {
			if tn, ok := b.(*types.TypeName); ok {
				return tn.Type()
			}
		}
		if pkg != nil {
			if obj, ok := pkg.Scope().Lookup(t.Name).(*types.TypeName); ok {
				return obj.Type()
			}
		}
	case *ast.StarExpr:
		if in := e.resolveType(pkg, t.X); in != nil {
			return types.NewPointer(in)
		}
	case *ast.SelectorExpr:
		if id, ok := t.X.(*ast.Ident); ok {
			if p := e.pkgByName(id.Name); p != nil {
				if obj, ok := p.Scope().Lookup(t.Sel.Name).(*types.TypeName); ok {
					return obj.Type()
				}
			}
		}
	case *ast.ArrayType:
		if t.Len == nil {
			if in := e.resolveType(pkg, t.Elt); in != nil {
				return types.NewSlice(in)
			}
		}
	case *ast.MapType:
		k, v := e.resolveType(pkg, t.Key), e.resolveType(pkg, t.Value)
		if k != nil && v != nil {
			return types.NewMap(k, v)
		}
	}
	return nil
}
