package main

import (
	"fmt"
	"go/token"
	"go/types"
	"strings"

	"golang.org/x/tools/go/ssa"
)

func exprOf(v ssa.Value) string {
	s := v.Name()
	return s
}

// srcText returns a normalised source snippet for a position range when available.
func (fx *FuncCtx) describe(ins ssa.Instruction) string {
	return fx.eng.describe(fx.fn, ins)
}

func (fx *FuncCtx) step(st *State, ins ssa.Instruction) {
	switch x := ins.(type) {
	case *ssa.DebugRef:
		return
	case *ssa.Alloc:
		fx.stepAlloc(st, x)
	case *ssa.Store:
		p := fx.val(st, x.Addr)
		v := fx.val(st, x.Val)
		fx.nilCheck(st, p, fx.describe(x), x.Pos())
		fx.store(st, fx.asAddr(p), v)
	case *ssa.UnOp:
		fx.stepUnOp(st, x)
	case *ssa.BinOp:
		fx.stepBinOp(st, x)
	case *ssa.FieldAddr:
		p := fx.val(st, x.X)
		fx.nilCheck(st, p, fx.describe(x), x.Pos())
		a := fx.asAddr(p)
		stt := a.Ty.Underlying().(*types.Struct)
		na := *a
		na.Path = append(append([]int{}, a.Path...), x.Field)
		na.Ty = stt.Field(x.Field).Type()
		if a.Kind == ACell {
			na.Kind = AField
		}
		fx.vals[x] = &Val{Ty: x.Type(), Addr: &na}
	case *ssa.Field:
		v := fx.val(st, x.X)
		if v.T == "" {
			fx.vals[x] = &Val{Ty: x.Type(), Bad: "field of engine-level value"}
			return
		}
		t, ty := fx.project(v.T, v.Ty, []int{x.Field})
		fx.vals[x] = &Val{T: fx.define(x.Name(), fx.u.sortOf(ty), t), Ty: x.Type()}
	case *ssa.IndexAddr:
		fx.stepIndexAddr(st, x)
	case *ssa.Index:
		fx.stepIndex(st, x)
	case *ssa.Slice:
		fx.stepSlice(st, x)
	case *ssa.Lookup:
		fx.stepLookup(st, x)
	case *ssa.MapUpdate:
		fx.stepMapUpdate(st, x)
	case *ssa.MakeSlice:
		fx.stepMakeSlice(st, x)
	case *ssa.MakeMap:
		r := fx.newRef(st)
		kt := x.Type().Underlying().(*types.Map).Key()
		vt := x.Type().Underlying().(*types.Map).Elem()
		hn, hs, _, _ := fx.mapComps(kt, vt)
		h := fx.heapGet(st, hn, hs)
		fx.heapSet(st, hn, hs, "(store "+h+" "+r+" ((as const (Array "+fx.u.sortOf(kt)+" Bool)) false))")
		ln, ls := "ML$len", "(Array Int Int)"
		l := fx.heapGet(st, ln, ls)
		fx.heapSet(st, ln, ls, "(store "+l+" "+r+" 0)")
		fx.vals[x] = &Val{T: r, Ty: x.Type()}
	case *ssa.MakeInterface:
		fx.vals[x] = fx.makeIface(st, fx.val(st, x.X), x.Type())
	case *ssa.MakeClosure:
		f := x.Fn.(*ssa.Function)
		v := &Val{T: fx.funcRef(f), Ty: x.Type(), Fn: f}
		for _, b := range x.Bindings {
			v.Binds = append(v.Binds, fx.val(st, b))
		}
		fx.vals[x] = v
	case *ssa.ChangeType:
		v := *fx.val(st, x.X)
		v.Ty = x.Type()
		fx.vals[x] = &v
	case *ssa.ChangeInterface:
		v := *fx.val(st, x.X)
		v.Ty = x.Type()
		fx.vals[x] = &v
	case *ssa.Convert:
		fx.stepConvert(st, x)
	case *ssa.TypeAssert:
		fx.stepTypeAssert(st, x)
	case *ssa.Extract:
		t := fx.val(st, x.Tuple)
		if x.Index < len(t.Tup) {
			fx.vals[x] = t.Tup[x.Index]
		} else {
			fx.vals[x] = fx.freshVal(st, "ext", x.Type())
		}
	case *ssa.Phi:
		fx.stepPhi(st, x)
	case *ssa.Call:
		r := fx.call(st, &x.Call, x, x.Type(), x.Pos())
		fx.vals[x] = r
	case *ssa.Defer:
		rec := &deferRec{instr: x, flag: "true"}
		for _, a := range x.Call.Args {
			rec.args = append(rec.args, fx.val(st, a))
		}
		if x.Call.IsInvoke() || !isStaticCall(&x.Call) {
			rec.args = append([]*Val{fx.val(st, x.Call.Value)}, rec.args...)
		}
		st.Defers = append(st.Defers, rec)
	case *ssa.RunDefers:
		fx.runDefers(st)
	case *ssa.Return:
		var vals []*Val
		for _, r := range x.Results {
			vals = append(vals, fx.val(st, r))
		}
		fx.atReturn(st, x, vals)
	case *ssa.If, *ssa.Jump:
		return
	case *ssa.Panic:
		ob := fx.oblige(st, "panic", fx.siteName("panic", fx.describe(x)), "false", x.Pos(), true)
		if ob != nil {
			ob.Expr = "explicit panic reachable"
		}
	case *ssa.Range:
		fx.stepRange(st, x)
	case *ssa.Next:
		fx.stepNext(st, x)
	case *ssa.Go, *ssa.Send, *ssa.Select, *ssa.MakeChan:
		fx.rejected = fmt.Sprintf("%T outside the accepted subset", ins)
	default:
		fx.note("unmodelled instruction %T", ins)
		if v, ok := ins.(ssa.Value); ok {
			fx.vals[v] = fx.freshVal(st, "unk", v.Type())
		}
	}
}

func isStaticCall(c *ssa.CallCommon) bool {
	if c.IsInvoke() {
		return false
	}
	switch c.Value.(type) {
	case *ssa.Function, *ssa.Builtin:
		return true
	}
	return false
}

func (fx *FuncCtx) stepAlloc(st *State, x *ssa.Alloc) {
	elem := deref(x.Type())
	if !x.Heap {
		st.Cells[x] = &Val{T: fx.u.zero(elem), Ty: elem}
		fx.vals[x] = &Val{Ty: x.Type(), Addr: &Addr{Kind: ALocal, Alloc: x, Root: elem, Ty: elem}}
		return
	}
	r := fx.newRef(st)
	if arr, ok := elem.Underlying().(*types.Array); ok {
		name, cs := elemComp(fx.u, arr.Elem())
		h := fx.heapGet(st, name, cs)
		fx.heapSet(st, name, cs, "(store "+h+" "+r+" ((as const (Array Int "+fx.u.sortOf(arr.Elem())+")) "+fx.u.zero(arr.Elem())+"))")
	} else if isStruct(elem) {
		fx.storeField(st, r, elem, nil, elem, fx.u.zero(elem))
	} else {
		name, cs := cellComp(fx.u, elem)
		h := fx.heapGet(st, name, cs)
		fx.heapSet(st, name, cs, "(store "+h+" "+r+" "+fx.u.zero(elem)+")")
	}
	fx.vals[x] = &Val{T: r, Ty: x.Type()}
	fx.heapAllocs = append(fx.heapAllocs, x)
}

func (fx *FuncCtx) stepUnOp(st *State, x *ssa.UnOp) {
	v := fx.val(st, x.X)
	switch x.Op {
	case token.MUL:
		fx.nilCheck(st, v, fx.describe(x), x.Pos())
		r := fx.load(st, fx.asAddr(v), x.Pos())
		fx.vals[x] = r
	case token.NOT:
		fx.vals[x] = &Val{T: not(v.T), Ty: x.Type()}
	case token.SUB:
		t := fx.define(x.Name(), "Int", "(- "+v.T+")")
		fx.rangeOblige(st, t, x.Type(), fx.describe(x), x.Pos())
		fx.vals[x] = &Val{T: t, Ty: x.Type()}
	case token.XOR:
		n := fx.u.uf("bitnot", "(declare-fun bitnot (Int) Int)")
		r := &Val{T: "(" + n + " " + v.T + ")", Ty: x.Type()}
		fx.assume(st, fx.wf(st, r.T, x.Type(), 0))
		fx.vals[x] = r
	default:
		fx.rejected = "unary " + x.Op.String() + " outside the accepted subset"
	}
}

func (fx *FuncCtx) rangeOblige(st *State, t string, ty types.Type, expr string, pos token.Pos) {
	lo, hi, ok := intRange(ty)
	if !ok {
		return
	}
	ob := fx.oblige(st, "range", fx.siteName("range", expr), fmt.Sprintf("(and (<= %s %s) (<= %s %s))", lo, t, t, hi), pos, true)
	if ob != nil {
		ob.Expr = "integer overflow in " + expr
	}
}

func isString(t types.Type) bool {
	b, ok := t.Underlying().(*types.Basic)
	return ok && b.Info()&types.IsString != 0
}

func isInteger(t types.Type) bool {
	b, ok := t.Underlying().(*types.Basic)
	return ok && b.Info()&types.IsInteger != 0
}

func (fx *FuncCtx) stepBinOp(st *State, x *ssa.BinOp) {
	a, b := fx.val(st, x.X), fx.val(st, x.Y)
	ty := x.X.Type()
	res := func(t, sortName string) {
		fx.vals[x] = &Val{T: fx.define(x.Name(), sortName, t), Ty: x.Type()}
	}
	if a.T == "" || b.T == "" {
		// comparisons of addresses
		ta, oka := fx.ptrTerm(st, a)
		tb, okb := fx.ptrTerm(st, b)
		if oka && okb && (x.Op == token.EQL || x.Op == token.NEQ) {
			t := "(= " + ta + " " + tb + ")"
			if x.Op == token.NEQ {
				t = not(t)
			}
			res(t, "Bool")
			return
		}
		// address of a local compared with nil
		if (x.Op == token.EQL || x.Op == token.NEQ) && (a.Addr != nil || b.Addr != nil) {
			if x.Op == token.EQL {
				res("false", "Bool")
			} else {
				res("true", "Bool")
			}
			return
		}
		fx.note("binary op on engine-level values")
		fx.vals[x] = fx.freshVal(st, "unk", x.Type())
		return
	}
	switch x.Op {
	case token.EQL, token.NEQ:
		var t string
		if _, isSl := ty.Underlying().(*types.Slice); isSl {
			// only comparison with nil is legal
			other := a
			if c, ok := x.X.(*ssa.Const); ok && c.Value == nil {
				other = b
			}
			t = "(= (sl_arr " + other.T + ") 0)"
		} else {
			t = "(= " + a.T + " " + b.T + ")"
		}
		if x.Op == token.NEQ {
			t = not(t)
		}
		res(t, "Bool")
	case token.LSS, token.LEQ, token.GTR, token.GEQ:
		if isString(ty) {
			var t string
			switch x.Op {
			case token.LSS:
				t = fx.u.slt(a.T, b.T)
			case token.GTR:
				t = fx.u.slt(b.T, a.T)
			case token.LEQ:
				t = not(fx.u.slt(b.T, a.T))
			case token.GEQ:
				t = not(fx.u.slt(a.T, b.T))
			}
			res(t, "Bool")
			return
		}
		op := map[token.Token]string{token.LSS: "<", token.LEQ: "<=", token.GTR: ">", token.GEQ: ">="}[x.Op]
		res("("+op+" "+a.T+" "+b.T+")", "Bool")
	case token.ADD:
		if isString(ty) {
			res(fx.u.sconcat(a.T, b.T), fx.u.strSort())
			return
		}
		fallthrough
	case token.SUB, token.MUL:
		if !isInteger(ty) {
			fx.vals[x] = fx.freshVal(st, "flt", x.Type())
			return
		}
		op := map[token.Token]string{token.ADD: "+", token.SUB: "-", token.MUL: "*"}[x.Op]
		t := fx.define(x.Name(), "Int", "("+op+" "+a.T+" "+b.T+")")
		if x.Op != token.MUL {
			fx.seed(t)
		}
		if fx.ct == nil || !fx.ct.Wraps {
			fx.rangeOblige(st, t, x.Type(), fx.describe(x), x.Pos())
		}
		fx.vals[x] = &Val{T: t, Ty: x.Type()}
	case token.QUO, token.REM:
		if !isInteger(ty) {
			fx.vals[x] = fx.freshVal(st, "flt", x.Type())
			return
		}
		ob := fx.oblige(st, "div", fx.siteName("div", fx.describe(x)), "(not (= "+b.T+" 0))", x.Pos(), true)
		if ob != nil {
			ob.Expr = "division by zero in " + fx.describe(x)
		}
		// Go truncates toward zero
		q := fmt.Sprintf("(ite (>= %s 0) (div %s %s) (- (div (- %s) %s)))", a.T, a.T, b.T, a.T, b.T)
		if x.Op == token.QUO {
			t := fx.define(x.Name(), "Int", q)
			fx.rangeOblige(st, t, x.Type(), fx.describe(x), x.Pos())
			fx.vals[x] = &Val{T: t, Ty: x.Type()}
		} else {
			res("(- "+a.T+" (* "+b.T+" "+q+"))", "Int")
		}
	case token.AND, token.OR, token.XOR, token.SHL, token.SHR, token.AND_NOT:
		if x.Type().Underlying().(*types.Basic).Info()&types.IsBoolean != 0 {
			fx.rejected = "boolean bit operator"
			return
		}
		n := "bitop$" + sanitize(x.Op.String())
		names := map[token.Token]string{token.AND: "and", token.OR: "or", token.XOR: "xor", token.SHL: "shl", token.SHR: "shr", token.AND_NOT: "andnot"}
		n = "bitop$" + names[x.Op]
		fx.u.uf(n, "(declare-fun "+n+" (Int Int) Int)")
		r := &Val{T: fx.define(x.Name(), "Int", "("+n+" "+a.T+" "+b.T+")"), Ty: x.Type()}
		fx.assume(st, fx.wf(st, r.T, x.Type(), 0))
		fx.vals[x] = r
	default:
		fx.rejected = "binary " + x.Op.String() + " outside the accepted subset"
	}
}

func (fx *FuncCtx) stepIndexAddr(st *State, x *ssa.IndexAddr) {
	base := fx.val(st, x.X)
	idx := fx.val(st, x.Index)
	fx.seed(idx.T)
	switch bt := x.X.Type().Underlying().(type) {
	case *types.Slice:
		ob := fx.oblige(st, "idx", fx.siteName("idx", fx.describe(x)),
			fmt.Sprintf("(and (<= 0 %s) (< %s (sl_len %s)))", idx.T, idx.T, base.T), x.Pos(), true)
		if ob != nil {
			ob.Expr = "index out of range in " + fx.describe(x)
		}
		fx.vals[x] = &Val{Ty: x.Type(), Addr: &Addr{Kind: AElem, Arr: fx.arrOf(base.T),
			Idx: fx.define("ix", "Int", "(+ (sl_off "+base.T+") "+idx.T+")"), Root: bt.Elem(), Ty: bt.Elem()}}
	case *types.Pointer:
		arr := bt.Elem().Underlying().(*types.Array)
		ob := fx.oblige(st, "idx", fx.siteName("idx", fx.describe(x)),
			fmt.Sprintf("(and (<= 0 %s) (< %s %d))", idx.T, idx.T, arr.Len()), x.Pos(), true)
		if ob != nil {
			ob.Expr = "index out of range in " + fx.describe(x)
		}
		if base.Addr != nil && base.Addr.Kind == ALocal {
			// local array: treat cell as SMT array value
			fx.vals[x] = &Val{Ty: x.Type(), Bad: "element address of local array"}
			fx.note("element address of a local array is not modelled")
			return
		}
		ref, _ := fx.ptrTerm(st, base)
		fx.vals[x] = &Val{Ty: x.Type(), Addr: &Addr{Kind: AElem, Arr: ref, Idx: idx.T, Root: arr.Elem(), Ty: arr.Elem()}}
	default:
		fx.rejected = "IndexAddr on " + x.X.Type().String()
	}
}

func (fx *FuncCtx) stepIndex(st *State, x *ssa.Index) {
	base := fx.val(st, x.X)
	idx := fx.val(st, x.Index)
	switch bt := x.X.Type().Underlying().(type) {
	case *types.Array:
		ob := fx.oblige(st, "idx", fx.siteName("idx", fx.describe(x)),
			fmt.Sprintf("(and (<= 0 %s) (< %s %d))", idx.T, idx.T, bt.Len()), x.Pos(), true)
		if ob != nil {
			ob.Expr = "index out of range in " + fx.describe(x)
		}
		fx.vals[x] = &Val{T: "(select " + base.T + " " + idx.T + ")", Ty: x.Type()}
	default:
		fx.vals[x] = fx.freshVal(st, "unk", x.Type())
		fx.note("Index on %s", x.X.Type())
	}
}

func (fx *FuncCtx) stepSlice(st *State, x *ssa.Slice) {
	base := fx.val(st, x.X)
	var lo, hi, max string
	if x.Low != nil {
		lo = fx.val(st, x.Low).T
	} else {
		lo = "0"
	}
	desc := fx.describe(x)
	switch bt := x.X.Type().Underlying().(type) {
	case *types.Slice:
		if x.High != nil {
			hi = fx.val(st, x.High).T
		} else {
			hi = "(sl_len " + base.T + ")"
		}
		capT := "(sl_cap " + base.T + ")"
		goal := fmt.Sprintf("(and (<= 0 %s) (<= %s %s) (<= %s %s))", lo, lo, hi, hi, capT)
		if x.Max != nil {
			max = fx.val(st, x.Max).T
			goal = fmt.Sprintf("(and (<= 0 %s) (<= %s %s) (<= %s %s) (<= %s %s))", lo, lo, hi, hi, max, max, capT)
			capT = max
		}
		ob := fx.oblige(st, "slice", fx.siteName("slice", desc), goal, x.Pos(), true)
		if ob != nil {
			ob.Expr = "slice bounds out of range in " + desc
		}
		t := fmt.Sprintf("(mk_sl %s (+ (sl_off %s) %s) (- %s %s) (- %s %s))", fx.arrOf(base.T), base.T, lo, hi, lo, capT, lo)
		nt := fx.define(x.Name(), "Sl", t)
		fx.sliceArr[nt] = fx.arrOf(base.T)
		fx.vals[x] = &Val{T: nt, Ty: x.Type()}
	case *types.Basic: // string
		if x.High != nil {
			hi = fx.val(st, x.High).T
		} else {
			hi = fx.u.slen(base.T)
		}
		goal := fmt.Sprintf("(and (<= 0 %s) (<= %s %s) (<= %s %s))", lo, lo, hi, hi, fx.u.slen(base.T))
		ob := fx.oblige(st, "slice", fx.siteName("slice", desc), goal, x.Pos(), true)
		if ob != nil {
			ob.Expr = "string slice bounds out of range in " + desc
		}
		fx.vals[x] = &Val{T: fx.define(x.Name(), fx.u.strSort(), fx.u.ssub(base.T, lo, hi)), Ty: x.Type()}
	case *types.Pointer:
		arr := bt.Elem().Underlying().(*types.Array)
		n := fmt.Sprint(arr.Len())
		if x.High != nil {
			hi = fx.val(st, x.High).T
		} else {
			hi = n
		}
		goal := fmt.Sprintf("(and (<= 0 %s) (<= %s %s) (<= %s %s))", lo, lo, hi, hi, n)
		ob := fx.oblige(st, "slice", fx.siteName("slice", desc), goal, x.Pos(), true)
		if ob != nil {
			ob.Expr = "slice bounds out of range in " + desc
		}
		ref, ok := fx.ptrTerm(st, base)
		if !ok {
			// slicing a local array: allocate a fresh backing array holding its content
			ref = fx.newRef(st)
			if base.Addr != nil && base.Addr.Kind == ALocal {
				cell := fx.load(st, base.Addr, x.Pos())
				name, cs := elemComp(fx.u, arr.Elem())
				h := fx.heapGet(st, name, cs)
				fx.heapSet(st, name, cs, "(store "+h+" "+ref+" "+cell.T+")")
			}
		}
		t := fmt.Sprintf("(mk_sl %s %s (- %s %s) (- %s %s))", ref, lo, hi, lo, n, lo)
		fx.vals[x] = &Val{T: fx.define(x.Name(), "Sl", t), Ty: x.Type()}
	default:
		fx.rejected = "Slice on " + x.X.Type().String()
	}
}

func (fx *FuncCtx) mapComps(k, v types.Type) (hasName, hasSort, valName, valSort string) {
	ks, vs := fx.u.sortOf(k), fx.u.sortOf(v)
	key := typeKey(k) + "$" + typeKey(v)
	return "MH$" + key, "(Array Int (Array " + ks + " Bool))", "MV$" + key, "(Array Int (Array " + ks + " " + vs + "))"
}

func (fx *FuncCtx) stepLookup(st *State, x *ssa.Lookup) {
	base := fx.val(st, x.X)
	idx := fx.val(st, x.Index)
	if mt, ok := x.X.Type().Underlying().(*types.Map); ok {
		hn, hs, vn, vs := fx.mapComps(mt.Key(), mt.Elem())
		has := "(select (select " + fx.heapGet(st, hn, hs) + " " + base.T + ") " + idx.T + ")"
		val := "(select (select " + fx.heapGet(st, vn, vs) + " " + base.T + ") " + idx.T + ")"
		okT := fx.define("mok", "Bool", and("(not (= "+base.T+" 0))", has))
		v := &Val{T: fx.define(x.Name(), fx.u.sortOf(mt.Elem()), ite(okT, val, fx.u.zero(mt.Elem()))), Ty: mt.Elem()}
		fx.assume(st, fx.wf(st, v.T, mt.Elem(), 0))
		if x.CommaOk {
			fx.vals[x] = &Val{Ty: x.Type(), Tup: []*Val{v, {T: okT, Ty: types.Typ[types.Bool]}}}
		} else {
			fx.vals[x] = v
		}
		return
	}
	// string index
	ob := fx.oblige(st, "idx", fx.siteName("idx", fx.describe(x)),
		fmt.Sprintf("(and (<= 0 %s) (< %s %s))", idx.T, idx.T, fx.u.slen(base.T)), x.Pos(), true)
	if ob != nil {
		ob.Expr = "string index out of range in " + fx.describe(x)
	}
	if fx.u.strings {
		fx.vals[x] = &Val{T: "(str.to_code (str.at " + base.T + " " + idx.T + "))", Ty: x.Type()}
	} else {
		fx.vals[x] = &Val{T: "(sat " + base.T + " " + idx.T + ")", Ty: x.Type()}
	}
}

func (fx *FuncCtx) stepMapUpdate(st *State, x *ssa.MapUpdate) {
	m := fx.val(st, x.Map)
	k := fx.val(st, x.Key)
	v := fx.val(st, x.Value)
	ob := fx.oblige(st, "mapnil", fx.siteName("mapnil", fx.describe(x)), "(not (= "+m.T+" 0))", x.Pos(), true)
	if ob != nil {
		ob.Expr = "assignment to entry in nil map in " + fx.describe(x)
	}
	if v.T == "" {
		v = fx.freshVal(st, "esc", x.Value.Type())
		fx.note("engine-level value stored in map")
	}
	mt := x.Map.Type().Underlying().(*types.Map)
	hn, hs, vn, vs := fx.mapComps(mt.Key(), mt.Elem())
	h := fx.heapGet(st, hn, hs)
	hv := fx.heapGet(st, vn, vs)
	had := "(select (select " + h + " " + m.T + ") " + k.T + ")"
	ln, ls := "ML$len", "(Array Int Int)"
	l := fx.heapGet(st, ln, ls)
	fx.heapSet(st, ln, ls, "(store "+l+" "+m.T+" (ite "+had+" (select "+l+" "+m.T+") (+ (select "+l+" "+m.T+") 1)))")
	fx.heapSet(st, hn, hs, "(store "+h+" "+m.T+" (store (select "+h+" "+m.T+") "+k.T+" true))")
	fx.heapSet(st, vn, vs, "(store "+hv+" "+m.T+" (store (select "+hv+" "+m.T+") "+k.T+" "+v.T+"))")
}

func (fx *FuncCtx) stepMakeSlice(st *State, x *ssa.MakeSlice) {
	l := fx.val(st, x.Len)
	c := fx.val(st, x.Cap)
	ob := fx.oblige(st, "make", fx.siteName("make", fx.describe(x)),
		fmt.Sprintf("(and (<= 0 %s) (<= %s %s) (<= %s 281474976710655))", l.T, l.T, c.T, c.T), x.Pos(), true)
	if ob != nil {
		ob.Expr = "makeslice: len/cap out of range in " + fx.describe(x)
	}
	r := fx.newRef(st)
	elem := x.Type().Underlying().(*types.Slice).Elem()
	name, cs := elemComp(fx.u, elem)
	h := fx.heapGet(st, name, cs)
	fx.heapSet(st, name, cs, "(store "+h+" "+r+" ((as const (Array Int "+fx.u.sortOf(elem)+")) "+fx.u.zero(elem)+"))")
	fx.vals[x] = &Val{T: fx.define(x.Name(), "Sl", "(mk_sl "+r+" 0 "+l.T+" "+c.T+")"), Ty: x.Type()}
}

func (fx *FuncCtx) makeIface(st *State, v *Val, ifaceT types.Type) *Val {
	dt := v.Ty
	if _, isIface := dt.Underlying().(*types.Interface); isIface {
		r := *v
		r.Ty = ifaceT
		return &r
	}
	tag := fx.u.tagOf(dt)
	var payload string
	if !boxed(dt) {
		t, ok := fx.ptrTerm(st, v)
		if !ok {
			// pointer to a local variable escapes into an interface
			r := &Val{T: fmt.Sprintf("(mk_if %d 0)", tag), Ty: ifaceT, Addr: v.Addr, Bad: ""}
			return r
		}
		payload = t
	} else {
		if v.T == "" {
			return &Val{Ty: ifaceT, Bad: "engine-level value boxed"}
		}
		box, unbox := fx.u.boxFn(fx.u.sortOf(dt))
		payload = "(" + box + " " + v.T + ")"
		_ = unbox
	}
	return &Val{T: fmt.Sprintf("(mk_if %d %s)", tag, payload), Ty: ifaceT, Fn: v.Fn, Binds: v.Binds}
}

func (fx *FuncCtx) unboxAs(st *State, iv string, t types.Type) *Val {
	if !boxed(t) {
		return &Val{T: "(if_val " + iv + ")", Ty: t}
	}
	_, unbox := fx.u.boxFn(fx.u.sortOf(t))
	return &Val{T: "(" + unbox + " (if_val " + iv + "))", Ty: t}
}

func (fx *FuncCtx) stepTypeAssert(st *State, x *ssa.TypeAssert) {
	v := fx.val(st, x.X)
	if v.T == "" {
		fx.vals[x] = fx.freshVal(st, "unk", x.Type())
		fx.note("type assertion on engine-level value")
		return
	}
	var okT string
	var res *Val
	if _, isIface := x.AssertedType.Underlying().(*types.Interface); isIface {
		n := "impl$" + sanitize(shortTypeName(x.AssertedType))
		fx.u.uf(n, "(declare-fun "+n+" (Int) Bool)")
		okT = and("(not (= (if_tag "+v.T+") 0))", "("+n+" (if_tag "+v.T+"))")
		if ai, ok := x.AssertedType.Underlying().(*types.Interface); ok && types.Implements(x.X.Type(), ai) {
			// the static type already has every method asked for: only a nil value fails
			okT = "(not (= (if_tag " + v.T + ") 0))"
		}
		// concrete types known to implement / not implement the interface
		for _, k := range fx.u.tagOrder {
			_ = k
		}
		fx.ifaceAsserts = append(fx.ifaceAsserts, ifaceAssert{uf: n, iface: x.AssertedType})
		res = &Val{T: v.T, Ty: x.AssertedType}
	} else {
		tag := fx.u.tagOf(x.AssertedType)
		okT = fmt.Sprintf("(= (if_tag %s) %d)", v.T, tag)
		res = fx.unboxAs(st, v.T, x.AssertedType)
		res.T = fx.define(x.Name(), fx.u.sortOf(x.AssertedType), res.T)
	}
	if x.CommaOk {
		okN := fx.define("tok", "Bool", okT)
		zero := fx.u.zero(x.AssertedType)
		rv := &Val{T: fx.define(x.Name(), fx.u.sortOf(x.AssertedType), ite(okN, res.T, zero)), Ty: x.AssertedType}
		if okN != "false" {
			fx.emit("(assert " + imp(and(st.R, okN), fx.wf(st, rv.T, x.AssertedType, 0)) + ")")
		}
		fx.vals[x] = &Val{Ty: x.Type(), Tup: []*Val{rv, {T: okN, Ty: types.Typ[types.Bool]}}}
		return
	}
	ob := fx.oblige(st, "assert", fx.siteName("assert", fx.describe(x)), okT, x.Pos(), true)
	if ob != nil {
		ob.Expr = "type assertion may fail in " + fx.describe(x)
	}
	fx.assume(st, fx.wf(st, res.T, x.AssertedType, 0))
	fx.vals[x] = res
}

type ifaceAssert struct {
	uf    string
	iface types.Type
}

func (fx *FuncCtx) stepConvert(st *State, x *ssa.Convert) {
	v := fx.val(st, x.X)
	from, to := x.X.Type(), x.Type()
	switch {
	case isInteger(from) && isInteger(to):
		flo, fhi, _ := intRange(from)
		tlo, thi, _ := intRange(to)
		if flo != tlo || fhi != thi {
			// narrowing or sign change: require the value to fit (Go would wrap silently)
			fl, _, _ := intRange(from)
			_ = fl
			if !rangeContains(to, from) {
				fx.rangeOblige(st, v.T, to, fx.describe(x), x.Pos())
			}
		}
		fx.vals[x] = &Val{T: v.T, Ty: to}
	case isString(from) && isByteSlice(to):
		r := fx.newRef(st)
		n := fx.u.uf("str2bytes", "(declare-fun str2bytes ("+fx.u.strSort()+") (Array Int Int))")
		name, cs := elemComp(fx.u, types.Typ[types.Byte])
		h := fx.heapGet(st, name, cs)
		fx.heapSet(st, name, cs, "(store "+h+" "+r+" ("+n+" "+v.T+"))")
		l := fx.u.slen(v.T)
		// converting back gives the same string
		b2s := fx.u.uf("bytes2str", "(declare-fun bytes2str ((Array Int Int) Int Int) "+fx.u.strSort()+")")
		fx.assume(st, "(= ("+b2s+" ("+n+" "+v.T+") 0 "+l+") "+v.T+")")
		fx.vals[x] = &Val{T: fx.define(x.Name(), "Sl", "(mk_sl "+r+" 0 "+l+" "+l+")"), Ty: to}
	case isByteSlice(from) && isString(to):
		n := fx.u.uf("bytes2str", "(declare-fun bytes2str ((Array Int Int) Int Int) "+fx.u.strSort()+")")
		name, cs := elemComp(fx.u, types.Typ[types.Byte])
		h := fx.heapGet(st, name, cs)
		t := fx.define(x.Name(), fx.u.strSort(), "("+n+" (select "+h+" (sl_arr "+v.T+")) (sl_off "+v.T+") (sl_len "+v.T+"))")
		fx.assume(st, "(= "+fx.u.slen(t)+" (sl_len "+v.T+"))")
		fx.vals[x] = &Val{T: t, Ty: to}
	case fx.u.sortOf(from) == fx.u.sortOf(to):
		fx.vals[x] = &Val{T: v.T, Ty: to}
	default:
		fx.note("conversion %s -> %s abstracted", from, to)
		fx.vals[x] = fx.freshVal(st, "cv", to)
	}
}

func isByteSlice(t types.Type) bool {
	s, ok := t.Underlying().(*types.Slice)
	if !ok {
		return false
	}
	b, ok := s.Elem().Underlying().(*types.Basic)
	return ok && b.Kind() == types.Uint8
}

func rangeContains(outer, inner types.Type) bool {
	order := func(t types.Type) (int, bool) { // bits, signed
		b := t.Underlying().(*types.Basic)
		switch b.Kind() {
		case types.Int8:
			return 8, true
		case types.Int16:
			return 16, true
		case types.Int32:
			return 32, true
		case types.Int, types.Int64:
			return 64, true
		case types.Uint8:
			return 8, false
		case types.Uint16:
			return 16, false
		case types.Uint32:
			return 32, false
		}
		return 64, false
	}
	ob, os := order(outer)
	ib, is := order(inner)
	if os == is {
		return ob >= ib
	}
	if os && !is {
		return ob > ib
	}
	return false
}

func (fx *FuncCtx) stepPhi(st *State, x *ssa.Phi) {
	// value = ite over the incoming (forward) edges of the current block
	var terms []string
	var conds []string
	var first *Val
	for i, p := range fx.curEdgePreds {
		for j, bp := range fx.curBlock.Preds {
			if bp == p {
				v := fx.val(fx.curEdges[i].st, x.Edges[j])
				if first == nil {
					first = v
				}
				terms = append(terms, v.T)
				conds = append(conds, fx.curEdges[i].cond)
				break
			}
		}
	}
	if len(terms) == 0 {
		fx.vals[x] = fx.freshVal(st, "phi", x.Type())
		return
	}
	t := terms[len(terms)-1]
	for i := len(terms) - 2; i >= 0; i-- {
		t = ite(conds[i], terms[i], t)
	}
	fx.vals[x] = &Val{T: fx.define(x.Name(), fx.u.sortOf(x.Type()), t), Ty: x.Type()}
}

// ---- map iteration: each key visited once in arbitrary order ----

func (fx *FuncCtx) stepRange(st *State, x *ssa.Range) {
	v := fx.val(st, x.X)
	fx.vals[x] = &Val{T: v.T, Ty: x.X.Type()}
	if mt, ok := x.X.Type().Underlying().(*types.Map); ok {
		// ghost set of keys already visited by this iteration
		name, cs := fx.rangeVisComp(x, mt)
		fx.heapGet(st, name, cs)
		st.Heap[name] = "((as const " + cs + ") false)"
	}
}

// rangeVisComp names the visited-set component of a map range loop (numbered in source order).
func (fx *FuncCtx) rangeVisComp(x *ssa.Range, mt *types.Map) (string, string) {
	n := 0
	for _, b := range fx.fn.Blocks {
		for _, ins := range b.Instrs {
			if r, ok := ins.(*ssa.Range); ok {
				if _, isMap := r.X.Type().Underlying().(*types.Map); isMap {
					n++
					if r == x {
						return fmt.Sprintf("RV$%d", n), "(Array " + fx.u.sortOf(mt.Key()) + " Bool)"
					}
				}
			}
		}
	}
	return "RV$0", "(Array " + fx.u.sortOf(mt.Key()) + " Bool)"
}

func (fx *FuncCtx) stepNext(st *State, x *ssa.Next) {
	it := fx.val(st, x.Iter)
	if x.IsString {
		fx.note("range over string abstracted")
		fx.vals[x] = fx.freshVal(st, "nx", x.Type())
		return
	}
	mt, ok := it.Ty.Underlying().(*types.Map)
	if !ok {
		fx.vals[x] = fx.freshVal(st, "nx", x.Type())
		return
	}
	okV := fx.declare("nxok", "Bool")
	k := fx.freshVal(st, "nxk", mt.Key())
	hn, hs, vn, vs := fx.mapComps(mt.Key(), mt.Elem())
	has := "(select (select " + fx.heapGet(st, hn, hs) + " " + it.T + ") " + k.T + ")"
	val := "(select (select " + fx.heapGet(st, vn, vs) + " " + it.T + ") " + k.T + ")"
	fx.assume(st, imp(okV, and("(not (= "+it.T+" 0))", has)))
	if rng, ok := x.Iter.(*ssa.Range); ok {
		// each key is visited exactly once; iteration ends when all keys have been visited
		name, cs := fx.rangeVisComp(rng, mt)
		vis := fx.heapGet(st, name, cs)
		fx.assume(st, imp(okV, "(not (select "+vis+" "+k.T+"))"))
		ks := fx.u.sortOf(mt.Key())
		fx.assume(st, imp(not(okV), "(forall ((k!v "+ks+")) (=> (and (not (= "+it.T+" 0)) (select (select "+fx.heapGet(st, hn, hs)+" "+it.T+") k!v)) (select "+vis+" k!v)))"))
		fx.logStore(name, "*")
		st.Heap[name] = fx.define("rv", cs, "(ite "+okV+" (store "+vis+" "+k.T+" true) "+vis+")")
	}
	v := &Val{T: fx.define("nxv", fx.u.sortOf(mt.Elem()), val), Ty: mt.Elem()}
	fx.assume(st, imp(okV, fx.wf(st, v.T, mt.Elem(), 0)))
	fx.vals[x] = &Val{Ty: x.Type(), Tup: []*Val{{T: okV, Ty: types.Typ[types.Bool]}, k, v}}
}

func joinStr(xs []string, sep string) string { return strings.Join(xs, sep) }

// arrOf returns the backing-array reference of a slice term, looking through
// re-slicing so that stores into sub-slices are attributed to the original array.
func (fx *FuncCtx) arrOf(t string) string {
	if a, ok := fx.sliceArr[t]; ok {
		return a
	}
	return "(sl_arr " + t + ")"
}
