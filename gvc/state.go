package main

import (
	"fmt"
	"regexp"
	"go/token"
	"go/types"
	"sort"
	"strings"

	"golang.org/x/tools/go/ssa"
)

type AddrKind int

const (
	ALocal AddrKind = iota // non-escaping local variable (engine-level cell)
	AField                 // field (path) of a heap struct object
	AElem                  // element of an array object (slice backing store)
	ACell                  // heap cell of a non-struct type
	AGlobal                // package-level variable
)

// Addr is a symbolic address.
type Addr struct {
	Kind  AddrKind
	Alloc *ssa.Alloc
	Base  string     // AField/ACell: reference term
	Root  types.Type // AField: struct type of the object; ALocal: type of the cell; AElem: element type; AGlobal: global's type
	Path  []int      // field path below Root
	Arr   string     // AElem: array reference
	Idx   string     // AElem: absolute index
	Glob  *ssa.Global
	Ty    types.Type // type of the addressed location
}

// Val is a symbolic value.
type Val struct {
	T     string // SMT term ("" when the value exists only at engine level)
	Ty    types.Type
	Addr  *Addr
	Tup   []*Val
	Fn    *ssa.Function // statically known function value
	Binds []*Val        // closure bindings
	Bad   string        // non-empty: value could not be modelled (reason)
	Re    string        // regular expression literal this *regexp.Regexp was compiled from
	HasRe bool
}

// heapBase resolves heap components that were never touched in a state.
type heapBase struct {
	epoch int
	conds []string
	subs  []*State
}

type State struct {
	R     string
	Cells map[*ssa.Alloc]*Val
	Heap  map[string]string
	Base  *heapBase
	Alloc string // allocation counter term
	// deferred calls registered on this path: flag cells are engine-level
	Defers []*deferRec
	// Splits: edge conditions of the joins passed since the function entry or the
	// enclosing loop header; postconditions and invariants are proved per path.
	Splits [][]string
}

type deferRec struct {
	instr *ssa.Defer
	flag  string // Bool term: executed on this path
	args  []*Val
}

func (s *State) clone() *State {
	n := &State{R: s.R, Base: s.Base, Alloc: s.Alloc}
	n.Cells = make(map[*ssa.Alloc]*Val, len(s.Cells))
	for k, v := range s.Cells {
		n.Cells[k] = v
	}
	n.Heap = make(map[string]string, len(s.Heap))
	for k, v := range s.Heap {
		n.Heap[k] = v
	}
	n.Defers = append([]*deferRec(nil), s.Defers...)
	n.Splits = append([][]string(nil), s.Splits...)
	return n
}

// Obligation is one proof goal.
type Obligation struct {
	Fn     string
	Kind   string // post, pre, inv-entry, inv-keep, step, decr, idx, slice, nil, assert, make, div, mapnil, range, frame, panic, refine, lemma, cover
	Label  string
	Name   string // full name
	Reach  string
	Goal   string
	Tags   []string
	Pos    token.Position
	Expr   string // source-ish description
	Cover  bool   // expect sat
	Prefix int    // number of body lines (fx.lines) visible to this obligation
	Clause *Clause
	AltGrp string
	PathsLast []string // the edge conditions of the most recent join only (cover the reach condition by construction)
	Paths  []string // when set: the goal is proved once under each of these hypotheses (they cover the reach condition)
}

// pathHypotheses enumerates the combinations of join edges (at most max of them,
// taking the most recent joins), each as a conjunction.
func pathHypotheses(splits [][]string, max int) []string {
	var use [][]string
	n := 1
	for i := len(splits) - 1; i >= 0; i-- {
		if len(splits[i]) < 2 {
			continue
		}
		if n*len(splits[i]) > max {
			break
		}
		n *= len(splits[i])
		use = append([][]string{splits[i]}, use...)
	}
	if len(use) == 0 {
		return nil
	}
	out := []string{"true"}
	for _, alts := range use {
		var next []string
		for _, o := range out {
			for _, a := range alts {
				next = append(next, and(o, a))
			}
		}
		out = next
	}
	return out
}

// FuncCtx is the per-function execution context.
type FuncCtx struct {
	shortTimeout func(obligation string) bool
	eng   *Engine
	fn    *ssa.Function
	ct    *Contract
	u     *Universe
	lines []string
	obls  []*Obligation
	n     int
	emitOn bool

	compSort map[string]string // heap component -> sort
	compDecl map[string]bool   // declared initial constants
	epochN   int

	entry    *State
	notes    []string // imprecision notes (unmodelled constructs)
	rejected string   // non-empty: function outside subset
	params   map[string]*Val
	results  []*Val // named result allocs (addresses) or nil
	siteN    map[string]int
	mods     map[*ssa.BasicBlock]*loopMods
	loops    map[*ssa.BasicBlock]*loopInfo
	assumes  []string // explicit assume clauses used
	callsUnmodelled map[string]bool
	callsContract   map[string]bool
	trusted  map[string]bool

	vals          map[ssa.Value]*Val
	rets          []*retPoint
	callN         map[string]int
	entryAfterReq *State
	curEdges      []edge
	curEdgePreds  []*ssa.BasicBlock
	curBlock      *ssa.BasicBlock
	exitN         int
	clauseErrs    []string
	qn            int
	heapAllocs    []*ssa.Alloc
	appendSites   int
	ifaceAsserts  []ifaceAssert
	specMode      bool
	specRets      []specRet
	specDepth     int
	regexes       []string
	preludeText   string

	storeLog      map[*ssa.BasicBlock]map[string]map[string]bool
	prevStoreLog  map[*ssa.BasicBlock]map[string]map[string]bool
	symLine       map[string]int
	prevSymLine   map[string]int
	headLine      map[*ssa.BasicBlock]int
	prevHeadLine  map[*ssa.BasicBlock]int
	sliceArr      map[string]string
	ownRecs       map[string]string
	pureInline    bool
	seeded        map[string]bool
	fnKey         string
	wfSeen        map[string]bool
}

// seed makes an integer term available as an instantiation point for the
// bounded quantifiers of the clause language (they are triggered by trg).
func (fx *FuncCtx) seed(t string) {
	if fx.specMode || t == "" || strings.Contains(t, "!") {
		return
	}
	if fx.seeded[t] {
		return
	}
	fx.seeded[t] = true
	fx.u.uf("trg", "(declare-fun trg (Int) Bool)")
	fx.emit("(assert (trg " + t + "))")
}

type loopMods struct {
	cells map[*ssa.Alloc]bool
	comps map[string]bool
	all   bool
}

func (fx *FuncCtx) fresh(prefix string) string {
	fx.n++
	return fmt.Sprintf("%s$%d", prefix, fx.n)
}

func (fx *FuncCtx) emit(line string) {
	fx.lines = append(fx.lines, line)
}

func (fx *FuncCtx) note(format string, args ...interface{}) {
	s := fmt.Sprintf(format, args...)
	for _, n := range fx.notes {
		if n == s {
			return
		}
	}
	fx.notes = append(fx.notes, s)
}

// declare introduces an unconstrained constant.
func (fx *FuncCtx) declare(prefix, sortName string) string {
	n := fx.fresh(prefix)
	fx.symLine[n] = len(fx.lines)
	fx.emit(fmt.Sprintf("(declare-const %s %s)", n, sortName))
	return n
}

// define names a term (only when it is not already atomic).
func (fx *FuncCtx) define(prefix, sortName, term string) string {
	if !strings.ContainsAny(term, " (") {
		return term
	}
	n := fx.fresh(prefix)
	fx.symLine[n] = len(fx.lines)
	if strings.HasPrefix(sortName, "(Array ") || strings.Contains(term, "(ite ") {
		// heap components stay constants (not macros): they occur in quantifier
		// patterns, where an expanded ite/and would make the pattern illegal
		fx.emit(fmt.Sprintf("(declare-const %s %s)", n, sortName))
		fx.emit(fmt.Sprintf("(assert (= %s %s))", n, term))
		return n
	}
	fx.emit(fmt.Sprintf("(define-fun %s () %s %s)", n, sortName, term))
	return n
}

func (fx *FuncCtx) assume(st *State, fact string) {
	if fact == "true" || fact == "" {
		return
	}
	fx.emit("(assert " + imp(st.R, fact) + ")")
}

// assumeTagged is assume for a named hypothesis (a requires clause or a loop
// invariant): obligations with a `uses` list leave out the ones they do not name.
func (fx *FuncCtx) assumeTagged(st *State, fact, tag string) {
	if fact == "true" || fact == "" {
		return
	}
	fx.emit("(assert " + imp(st.R, fact) + ") ;@hyp:" + tag)
}

func (fx *FuncCtx) siteName(kind, expr string) string {
	key := kind + ":" + expr
	fx.siteN[key]++
	return fmt.Sprintf("%s:%s#%d", kind, expr, fx.siteN[key])
}

// oblige records a proof obligation; for safety kinds the continuing path
// assumes the condition.
func (fx *FuncCtx) oblige(st *State, kind, label, goal string, pos token.Pos, strengthen bool) *Obligation {
	var ob *Obligation
	if fx.specMode {
		return nil
	}
	if goal != "true" && st.R != "false" {
		ob = &Obligation{Fn: fx.fn.String(), Kind: kind, Label: label, Reach: st.R, Goal: goal, Prefix: len(fx.lines)}
		if pos.IsValid() {
			ob.Pos = fx.fn.Prog.Fset.Position(pos)
		}
		ob.Name = fnDisplay(fx.fn) + "#" + label
		if kind == "inv-keep" || kind == "post" || kind == "step" || kind == "hint" {
			ob.Paths = pathHypotheses(st.Splits, 8)
			// the alternatives of the last join alone always cover the reach condition
			for i := len(st.Splits) - 1; i >= 0; i-- {
				if len(st.Splits[i]) >= 2 {
					if i == len(st.Splits)-1 {
						ob.PathsLast = append([]string(nil), st.Splits[i]...)
					}
					break
				}
			}
		}
		fx.obls = append(fx.obls, ob)
	}
	if strengthen && fx.ct != nil {
		// a waived obligation (`unproved`) is stated, not claimed: what follows must not lean on it
		for pat := range fx.ct.Unproved {
			if globMatch(pat, label) {
				strengthen = false
			}
		}
	}
	if strengthen && goal != "true" {
		if strings.Contains(goal, "(forall ") || strings.Contains(goal, "(exists ") {
			// checked, then assumed as a fact: keeps quantifiers out of the path conditions
			fx.emit("(assert " + imp(st.R, goal) + ")")
		} else {
			st.R = fx.define("R", "Bool", and(st.R, goal))
		}
	}
	return ob
}

func fnDisplay(f *ssa.Function) string {
	if f.Pkg != nil {
		return f.Pkg.Pkg.Name() + "." + f.RelString(f.Pkg.Pkg)
	}
	if f.Parent() != nil {
		return fnDisplay(f.Parent()) + "$anon"
	}
	return f.String()
}

// ---- heap components ----

func (fx *FuncCtx) compInit(name string, epoch int) string {
	n := fmt.Sprintf("%s@%d", name, epoch)
	if !fx.compDecl[n] {
		fx.compDecl[n] = true
		fx.emit(fmt.Sprintf("(declare-const %s %s)", n, fx.compSort[name]))
	}
	return n
}

// theorySort rewrites the abstract string sort in a ghost declaration for the string theory in force.
func (fx *FuncCtx) theorySort(s string) string {
	if fx.u != nil && fx.u.strings && strings.Contains(s, "Str") {
		return strRe.ReplaceAllString(s, "String")
	}
	return s
}

var strRe = regexp.MustCompile(`\bStr\b`)

func (fx *FuncCtx) heapGet(st *State, name, sortName string) string {
	sortName = fx.theorySort(sortName)
	if _, ok := fx.compSort[name]; !ok {
		fx.compSort[name] = sortName
	}
	if fx.eng.isImmutableFor(name, fx.fnKey) {
		// written only by its initialisers: a constant here, whatever unknown code ran
		return fx.compInit(name, 0)
	}
	if t, ok := st.Heap[name]; ok {
		return t
	}
	t := fx.baseLookup(st.Base, name)
	st.Heap[name] = t
	return t
}

func (fx *FuncCtx) baseLookup(b *heapBase, name string) string {
	if len(b.subs) == 0 {
		return fx.compInit(name, b.epoch)
	}
	terms := make([]string, len(b.subs))
	same := true
	for i, s := range b.subs {
		if t, ok := s.Heap[name]; ok {
			terms[i] = t
		} else {
			terms[i] = fx.baseLookup(s.Base, name)
		}
		if terms[i] != terms[0] {
			same = false
		}
	}
	if same {
		return terms[0]
	}
	t := terms[len(terms)-1]
	for i := len(terms) - 2; i >= 0; i-- {
		t = ite(b.conds[i], terms[i], t)
	}
	return fx.define("hm", fx.compSort[name], t)
}

func (fx *FuncCtx) heapSet(st *State, name, sortName, term string) {
	sortName = fx.theorySort(sortName)
	if _, ok := fx.compSort[name]; !ok {
		fx.compSort[name] = sortName
	}
	if fx.eng.isImmutableFor(name, fx.fnKey) {
		fx.clauseErrs = append(fx.clauseErrs, "store to a field declared immutable: "+name)
		return
	}
	fx.logStore(name, storeIndex(term))
	st.Heap[name] = fx.define("h", sortName, term)
}

// storeIndex extracts IDX from "(store H IDX V)"; "*" when the term has another shape.
func storeIndex(term string) string {
	if !strings.HasPrefix(term, "(store ") {
		return "*"
	}
	parts := splitSexps(term[len("(store "):])
	if len(parts) < 2 {
		return "*"
	}
	return parts[1]
}

// logStore records, for every loop containing the current block, at which
// index a heap component is written (used for automatic loop frames).
func (fx *FuncCtx) logStore(name, idx string) {
	if fx.specMode || fx.curBlock == nil {
		return
	}
	for _, li := range fx.loops {
		if !li.blocks[fx.curBlock] {
			continue
		}
		m := fx.storeLog[li.header]
		if m == nil {
			m = map[string]map[string]bool{}
			fx.storeLog[li.header] = m
		}
		if m[name] == nil {
			m[name] = map[string]bool{}
		}
		m[name][idx] = true
	}
}

// havocAll forgets the whole heap.
func (fx *FuncCtx) havocAll(st *State) {
	fx.epochN++
	st.Heap = map[string]string{}
	st.Base = &heapBase{epoch: fx.epochN}
	old := st.Alloc
	st.Alloc = fx.declare("alloc", "Int")
	fx.emit(fmt.Sprintf("(assert (>= %s %s))", st.Alloc, old))
}

func (fx *FuncCtx) havocComp(st *State, name string) {
	s, ok := fx.compSort[name]
	if !ok {
		return
	}
	st.Heap[name] = fx.declare("hv", s)
}

// newRef allocates a fresh reference.
func (fx *FuncCtx) newRef(st *State) string {
	r := fx.define("ref", "Int", "(+ "+st.Alloc+" 1)")
	st.Alloc = r
	return r
}

// ---- merging ----

type edge struct {
	cond string
	st   *State
}

func (fx *FuncCtx) merge(edges []edge) *State {
	if len(edges) == 1 {
		s := edges[0].st.clone()
		s.R = fx.define("R", "Bool", edges[0].cond)
		return s
	}
	n := &State{Cells: map[*ssa.Alloc]*Val{}, Heap: map[string]string{}}
	conds := make([]string, len(edges))
	for i, e := range edges {
		conds[i] = e.cond
	}
	// paths: the longest incoming history plus this join
	for _, e := range edges {
		if len(e.st.Splits) > len(n.Splits) {
			n.Splits = append([][]string(nil), e.st.Splits...)
		}
	}
	n.Splits = append(n.Splits, append([]string(nil), conds...))
	n.R = fx.define("R", "Bool", or(conds...))
	pick := func(terms []string, sortName string) string {
		same := true
		for _, t := range terms {
			if t != terms[0] {
				same = false
			}
		}
		if same {
			return terms[0]
		}
		t := terms[len(terms)-1]
		for i := len(terms) - 2; i >= 0; i-- {
			t = ite(conds[i], terms[i], t)
		}
		return fx.define("m", sortName, t)
	}
	// cells
	allocs := map[*ssa.Alloc]bool{}
	for _, e := range edges {
		for a := range e.st.Cells {
			allocs[a] = true
		}
	}
	alist := make([]*ssa.Alloc, 0, len(allocs))
	for a := range allocs {
		alist = append(alist, a)
	}
	sort.Slice(alist, func(i, j int) bool { return alist[i].Name() < alist[j].Name() })
	for _, a := range alist {
		var vals []*Val
		for _, e := range edges {
			if v, ok := e.st.Cells[a]; ok {
				vals = append(vals, v)
			} else {
				vals = append(vals, nil)
			}
		}
		var first *Val
		for _, v := range vals {
			if v != nil {
				first = v
				break
			}
		}
		allSame := true
		for _, v := range vals {
			if v != nil && v != first && !(v.T != "" && v.T == first.T && v.Addr == nil && first.Addr == nil && v.Fn == first.Fn) {
				allSame = false
			}
		}
		if allSame {
			n.Cells[a] = first
			continue
		}
		ok := true
		terms := make([]string, len(vals))
		for i, v := range vals {
			if v == nil {
				v = first
			}
			if v.T == "" || v.Bad != "" {
				ok = false
				break
			}
			terms[i] = v.T
		}
		if !ok {
			n.Cells[a] = &Val{Ty: first.Ty, Bad: "merge of engine-level values for " + a.Comment}
			continue
		}
		n.Cells[a] = &Val{T: pick(terms, fx.u.sortOf(first.Ty)), Ty: first.Ty}
	}
	// heap
	sameBase := true
	for _, e := range edges {
		if e.st.Base != edges[0].st.Base {
			sameBase = false
		}
	}
	if sameBase {
		n.Base = edges[0].st.Base
	} else {
		hb := &heapBase{conds: conds}
		for _, e := range edges {
			hb.subs = append(hb.subs, e.st)
		}
		n.Base = hb
	}
	comps := map[string]bool{}
	for _, e := range edges {
		for c := range e.st.Heap {
			comps[c] = true
		}
	}
	clist := make([]string, 0, len(comps))
	for c := range comps {
		clist = append(clist, c)
	}
	sort.Strings(clist)
	for _, c := range clist {
		terms := make([]string, len(edges))
		for i, e := range edges {
			if t, ok := e.st.Heap[c]; ok {
				terms[i] = t
			} else {
				terms[i] = fx.baseLookup(e.st.Base, c)
			}
		}
		n.Heap[c] = pick(terms, fx.compSort[c])
	}
	// alloc counter
	at := make([]string, len(edges))
	for i, e := range edges {
		at[i] = e.st.Alloc
	}
	n.Alloc = pick(at, "Int")
	// defers: union by instruction, flags merged
	seen := map[*ssa.Defer]bool{}
	for _, e := range edges {
		for _, d := range e.st.Defers {
			if seen[d.instr] {
				continue
			}
			seen[d.instr] = true
			flags := make([]string, len(edges))
			var args []*Val
			for i, e2 := range edges {
				flags[i] = "false"
				for _, d2 := range e2.st.Defers {
					if d2.instr == d.instr {
						flags[i] = d2.flag
						args = d2.args
					}
				}
			}
			n.Defers = append(n.Defers, &deferRec{instr: d.instr, flag: pick(flags, "Bool"), args: args})
		}
	}
	return n
}
