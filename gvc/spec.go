package main

import (
	"bufio"
	"fmt"
	"go/ast"
	"go/parser"
	"os"
	"regexp"
	"strconv"
	"strings"
)

type Clause struct {
	Kind    string // requires ensures invariant step decreases assume
	Label   string
	Props   []string
	Text    string
	Expr    ast.Expr
	Loop    int
	Alt     string // alternative group/alternative "group/alt"
	File    string
	Line    int
	Because string
}

type LoopSpec struct {
	Invariants []*Clause
	Steps      []*Clause
	Decreases  []*Clause
	Assumes    []*Clause
	Hints      []*Clause // lemmas proved on each back edge before the invariants (old() = state at the header)
	ExitHints  []*Clause // lemmas proved only on the edges that leave the loop mid-iteration
}

type Contract struct {
	Key      string // e.g. gofakes3.(*ObjectRangeRequest).Range | lib:io.ReadFull | iface:io.Reader.Read
	Kind     string // func | lib | iface | funcfield
	Requires []*Clause
	Ensures  []*Clause
	Assumes  []*Clause
	Loops    map[int]*LoopSpec
	Modifies []ast.Expr
	ModText  []string
	ModSet   bool // a modifies clause was given
	ModAll   bool
	Props    []string
	Theory   string
	Pure     bool
	Wraps    bool // arithmetic intended to wrap: no range obligations
	ModGoHeap bool // `modifies goheap`: the Go heap is unconstrained, ghost components are framed
	InvokesMany bool // `invokes* p`: p is called any number of times: only its frame applies, its postconditions are not assumed
	Passes   []*Clause // `passes`: facts about the arguments (cb0, cb1, ...) the library hands to the function value it invokes
	Invokes  string // `invokes p`: the (library) function calls its function-valued parameter p once, synchronously, with non-nil arguments
	Trusted  bool
	Refines  []string
	Params   []string // parameter names for lib contracts (optional)
	File     string
	Line     int
	Ghost    []string
	NoBody   bool // contract only used at call sites (body not verified): trusted
	Unproved map[string]string // site label -> reason (waivers)
	Lets     map[string]ast.Expr
	RecFuns  []*Pred
	Pkg      string // package of the file the contract was written in ("" for /verif/libcontracts)
	SeedNeighbours bool // `seeds neighbours`: goal-side bound variables also instantiate at j+1 and j-1
	GuardTriggers bool // quantified clauses of the form imp(guard, body) use the guard as E-matching trigger
	Uses     map[string][]string // clause label -> the only requires/invariant labels its proof obligations may use
	RetHints []*Clause // lemmas proved at every return before the postconditions
}

// ImmutableDecl: fields of a struct type that are written only by the listed
// initialising functions; everywhere else they are constants (checked syntactically).
type ImmutableDecl struct {
	Pkg    string
	Type   string
	Fields []string
	Init   []string
	File   string
	Line   int
}

// UFDecl: an uninterpreted specification function, `uf name(T1, T2) R`.
type UFDecl struct {
	Name   string
	Pkg    string
	Args   []ast.Expr
	Result ast.Expr
	File   string
	Line   int
}

type Pred struct {
	Name   string
	Params []string
	Body   ast.Expr
	Text   string
}

type SpecSet struct {
	Contracts map[string]*Contract
	Order     []string
	Ghosts    map[string]*GhostDecl
	Globals   []*Clause // global facts (assumed at function entry, checked nowhere: trusted)
	Preds     map[string]*Pred
	Immutable []*ImmutableDecl
	UFs       []*UFDecl
	Errors    []string
}

type GhostDecl struct {
	Name string
	Sort string // SMT sort of the component (e.g. "(Array Int Int)")
	Args int
}

var clauseHead = regexp.MustCompile(`^(requires|ensures|assume|passes|invariant|step|backstep|decreases|hint|exithint|rethint)\s*(\[[^\]]*\])?\s*([A-Za-z_][A-Za-z0-9_\-]*)\s*:\s*(.*)$`)

func newSpecSet() *SpecSet {
	return &SpecSet{Contracts: map[string]*Contract{}, Ghosts: map[string]*GhostDecl{}, Preds: map[string]*Pred{}}
}

// parseFile reads //@ contract blocks. In .gvc files the //@ prefix is optional.
func (ss *SpecSet) parseFile(path string, trusted bool, pkgName string) {
	f, err := os.Open(path)
	if err != nil {
		ss.Errors = append(ss.Errors, err.Error())
		return
	}
	defer f.Close()
	sc := bufio.NewScanner(f)
	sc.Buffer(make([]byte, 1<<20), 1<<20)
	var cur *Contract
	var lastClause *Clause
	var pending *strings.Builder
	var curPred *Pred
	var curLet string
	fileGuardTriggers := false
	lineNo := 0
	curAlt := ""
	finish := func() {
		if (curPred != nil || curLet != "") && pending != nil {
			txt := strings.TrimSpace(pending.String())
			e, err := parser.ParseExpr(txt)
			if err != nil {
				ss.Errors = append(ss.Errors, fmt.Sprintf("%s:%d: definition: %v", path, lineNo, err))
			}
			if curPred != nil {
				curPred.Body, curPred.Text = e, txt
			} else if cur != nil {
				cur.Lets[curLet] = e
			}
			curPred, curLet, pending = nil, "", nil
			return
		}
		if lastClause != nil && pending != nil {
			txt := strings.TrimSpace(pending.String())
			if i := strings.Index(txt, " because "); i >= 0 && lastClause.Kind == "assume" {
				lastClause.Because = strings.TrimSpace(txt[i+9:])
				txt = strings.TrimSpace(txt[:i])
			}
			lastClause.Text = txt
			e, err := parser.ParseExpr(txt)
			if err != nil {
				ss.Errors = append(ss.Errors, fmt.Sprintf("%s:%d: clause %s: %v", path, lastClause.Line, lastClause.Label, err))
			}
			lastClause.Expr = e
		}
		lastClause = nil
		pending = nil
	}
	gvc := strings.HasSuffix(path, ".gvc")
	for sc.Scan() {
		lineNo++
		raw := sc.Text()
		line := strings.TrimSpace(raw)
		if strings.HasPrefix(line, "//@") {
			line = strings.TrimSpace(line[3:])
		} else if gvc {
			if strings.HasPrefix(line, "#") || strings.HasPrefix(line, "//") {
				continue
			}
		} else {
			continue
		}
		if line == "" {
			continue
		}
		// strip trailing // comments inside clauses
		if i := strings.Index(line, " // "); i >= 0 {
			line = strings.TrimSpace(line[:i])
		}
		fields := strings.Fields(line)
		head := fields[0]
		switch head {
		case "func", "lib", "iface", "funcfield":
			finish()
			key := strings.TrimSpace(line[len(head):])
			kind := head
			full := key
			switch head {
			case "func":
				full = pkgName + "." + key
			case "lib":
				full = "lib:" + key
			case "iface":
				full = "iface:" + key
			case "funcfield":
				full = "funcfield:" + key
			}
			cur = &Contract{Key: full, Kind: kind, Loops: map[int]*LoopSpec{}, Trusted: trusted, File: path, Line: lineNo, Unproved: map[string]string{}, Lets: map[string]ast.Expr{}, Pkg: pkgName, GuardTriggers: fileGuardTriggers}
			if _, dup := ss.Contracts[full]; dup {
				ss.Errors = append(ss.Errors, fmt.Sprintf("%s:%d: duplicate contract %s", path, lineNo, full))
			}
			ss.Contracts[full] = cur
			ss.Order = append(ss.Order, full)
			curAlt = ""
			continue
		case "option":
			finish()
			if len(fields) > 1 && fields[1] == "guard-triggers" {
				if cur != nil {
					cur.GuardTriggers = true // inside a contract: for this contract only
				} else {
					fileGuardTriggers = true
				}
			}
			continue
		case "ghost":
			finish()
			// ghost name : sort
			rest := strings.TrimSpace(line[len("ghost"):])
			i := strings.Index(rest, ":")
			if i < 0 {
				ss.Errors = append(ss.Errors, fmt.Sprintf("%s:%d: bad ghost declaration", path, lineNo))
				continue
			}
			name := strings.TrimSpace(rest[:i])
			ss.Ghosts[name] = &GhostDecl{Name: name, Sort: strings.TrimSpace(rest[i+1:])}
			continue
		case "pred":
			finish()
			m := regexp.MustCompile(`^pred\s+([A-Za-z_][A-Za-z0-9_]*)\s*\(([^)]*)\)\s*=\s*(.*)$`).FindStringSubmatch(line)
			if m == nil {
				ss.Errors = append(ss.Errors, fmt.Sprintf("%s:%d: bad pred definition", path, lineNo))
				continue
			}
			pr := &Pred{Name: m[1]}
			for _, a := range strings.Split(m[2], ",") {
				if a = strings.TrimSpace(a); a != "" {
					pr.Params = append(pr.Params, a)
				}
			}
			ss.Preds[pr.Name] = pr
			curPred = pr
			pending = &strings.Builder{}
			pending.WriteString(m[3])
			continue
		case "uf":
			finish()
			m := regexp.MustCompile(`^uf\s+([A-Za-z_][A-Za-z0-9_]*)\s*\(([^)]*)\)\s*(.+)$`).FindStringSubmatch(line)
			if m == nil {
				ss.Errors = append(ss.Errors, fmt.Sprintf("%s:%d: bad uf declaration", path, lineNo))
				continue
			}
			d := &UFDecl{Name: m[1], Pkg: pkgName, File: path, Line: lineNo}
			for _, a := range splitTop(m[2]) {
				if a = strings.TrimSpace(a); a != "" {
					e, err := parser.ParseExpr(a)
					if err != nil {
						ss.Errors = append(ss.Errors, fmt.Sprintf("%s:%d: uf argument type: %v", path, lineNo, err))
						continue
					}
					d.Args = append(d.Args, e)
				}
			}
			re, err := parser.ParseExpr(strings.TrimSpace(m[3]))
			if err != nil {
				ss.Errors = append(ss.Errors, fmt.Sprintf("%s:%d: uf result type: %v", path, lineNo, err))
				continue
			}
			d.Result = re
			ss.UFs = append(ss.UFs, d)
			continue
		case "immutable":
			finish()
			// immutable Type f1 f2 ... init Func1 Func2 ...
			d := &ImmutableDecl{Pkg: pkgName, File: path, Line: lineNo}
			if len(fields) >= 2 {
				d.Type = fields[1]
			}
			inInit := false
			for _, f := range fields[2:] {
				if f == "init" {
					inInit = true
					continue
				}
				if inInit {
					d.Init = append(d.Init, f)
				} else {
					d.Fields = append(d.Fields, f)
				}
			}
			ss.Immutable = append(ss.Immutable, d)
			continue
		case "global":
			finish()
			rest := strings.TrimSpace(line[len("global"):])
			m := regexp.MustCompile(`^([A-Za-z_][A-Za-z0-9_]*)\s*:\s*(.*)$`).FindStringSubmatch(rest)
			if m == nil {
				ss.Errors = append(ss.Errors, fmt.Sprintf("%s:%d: bad global clause", path, lineNo))
				continue
			}
			c := &Clause{Kind: "global", Label: m[1], File: path, Line: lineNo}
			ss.Globals = append(ss.Globals, c)
			lastClause = c
			pending = &strings.Builder{}
			pending.WriteString(m[2])
			continue
		}
		if cur == nil {
			if pending != nil {
				pending.WriteString(" ")
				pending.WriteString(line)
				continue
			}
			ss.Errors = append(ss.Errors, fmt.Sprintf("%s:%d: clause outside contract: %s", path, lineNo, line))
			continue
		}
		switch head {
		case "props":
			finish()
			cur.Props = append(cur.Props, fields[1:]...)
			continue
		case "recfun":
			finish()
			m := regexp.MustCompile(`^recfun\s+([A-Za-z_][A-Za-z0-9_]*)\s*\(([^)]*)\)\s*=\s*(.*)$`).FindStringSubmatch(line)
			if m == nil {
				ss.Errors = append(ss.Errors, fmt.Sprintf("%s:%d: bad recfun definition", path, lineNo))
				continue
			}
			pr := &Pred{Name: m[1], Params: []string{strings.TrimSpace(m[2])}}
			cur.RecFuns = append(cur.RecFuns, pr)
			curPred = pr
			pending = &strings.Builder{}
			pending.WriteString(m[3])
			continue
		case "uses":
			finish()
			// uses <label>: l1 l2 ...   (requires are named req.<label>, loop invariants inv.<label>)
			rest := strings.TrimSpace(line[len("uses"):])
			i := strings.Index(rest, ":")
			if i < 0 {
				ss.Errors = append(ss.Errors, fmt.Sprintf("%s:%d: bad uses directive", path, lineNo))
				continue
			}
			if cur.Uses == nil {
				cur.Uses = map[string][]string{}
			}
			cur.Uses[strings.TrimSpace(rest[:i])] = strings.Fields(rest[i+1:])
			continue
		case "let":
			finish()
			m := regexp.MustCompile(`^let\s+([A-Za-z_][A-Za-z0-9_]*)\s*=\s*(.*)$`).FindStringSubmatch(line)
			if m == nil {
				ss.Errors = append(ss.Errors, fmt.Sprintf("%s:%d: bad let", path, lineNo))
				continue
			}
			curLet = m[1]
			pending = &strings.Builder{}
			pending.WriteString(m[2])
			continue
		case "theory":
			finish()
			cur.Theory = fields[1]
			continue
		case "pure":
			finish()
			cur.Pure = true
			cur.ModSet = true
			continue
		case "wraps":
			finish()
			cur.Wraps = true
			continue
		case "nobody":
			finish()
			cur.NoBody = true
			continue
		case "invokes", "invokes*":
			finish()
			if len(fields) > 1 {
				cur.Invokes = fields[1]
				cur.InvokesMany = fields[0] == "invokes*"
			}
			continue
		case "seeds":
			finish()
			if len(fields) > 1 && fields[1] == "neighbours" {
				cur.SeedNeighbours = true
			}
			continue
		case "params":
			finish()
			cur.Params = fields[1:]
			continue
		case "refines":
			finish()
			cur.Refines = append(cur.Refines, fields[1:]...)
			continue
		case "alt":
			finish()
			curAlt = fields[1]
			continue
		case "endalt":
			finish()
			curAlt = ""
			continue
		case "unproved":
			finish()
			// unproved <site> reason...
			if len(fields) >= 3 {
				cur.Unproved[fields[1]] = strings.Join(fields[2:], " ")
			}
			continue
		case "modifies":
			finish()
			rest := strings.TrimSpace(line[len("modifies"):])
			cur.ModSet = true
			if rest == "nothing" {
				continue
			}
			if rest == "heap" || rest == "everything" {
				cur.ModAll = true
				continue
			}
			if rest == "goheap" {
				// every Go heap location may change; ghost state does not (checked for the body)
				cur.ModGoHeap = true
				continue
			}
			for _, part := range splitTop(rest) {
				part = strings.TrimSpace(part)
				e, err := parser.ParseExpr(part)
				if err != nil {
					ss.Errors = append(ss.Errors, fmt.Sprintf("%s:%d: modifies %q: %v", path, lineNo, part, err))
					continue
				}
				cur.Modifies = append(cur.Modifies, e)
				cur.ModText = append(cur.ModText, part)
			}
			continue
		}
		loop := 0
		body := line
		if head == "loop" && len(fields) >= 3 {
			n, err := strconv.Atoi(fields[1])
			if err != nil {
				ss.Errors = append(ss.Errors, fmt.Sprintf("%s:%d: bad loop ordinal", path, lineNo))
				continue
			}
			loop = n
			body = strings.TrimSpace(line[strings.Index(line, fields[1])+len(fields[1]):])
		}
		if m := clauseHead.FindStringSubmatch(body); m != nil {
			finish()
			c := &Clause{Kind: m[1], Label: m[3], Loop: loop, File: path, Line: lineNo, Alt: curAlt}
			if m[2] != "" {
				for _, p := range strings.FieldsFunc(strings.Trim(m[2], "[]"), func(r rune) bool { return r == ',' || r == ' ' }) {
					c.Props = append(c.Props, p)
				}
			}
			switch c.Kind {
			case "rethint":
				cur.RetHints = append(cur.RetHints, c)
			case "requires":
				cur.Requires = append(cur.Requires, c)
			case "ensures":
				cur.Ensures = append(cur.Ensures, c)
			case "passes":
				cur.Passes = append(cur.Passes, c)
			case "assume":
				if loop > 0 {
					ls := cur.Loops[loop]
					if ls == nil {
						ls = &LoopSpec{}
						cur.Loops[loop] = ls
					}
					ls.Assumes = append(ls.Assumes, c)
				} else {
					cur.Assumes = append(cur.Assumes, c)
				}
			default:
				if loop == 0 {
					ss.Errors = append(ss.Errors, fmt.Sprintf("%s:%d: %s needs 'loop N'", path, lineNo, c.Kind))
					continue
				}
				ls := cur.Loops[loop]
				if ls == nil {
					ls = &LoopSpec{}
					cur.Loops[loop] = ls
				}
				switch c.Kind {
				case "invariant":
					ls.Invariants = append(ls.Invariants, c)
				case "step", "backstep":
					// backstep: checked on the edges that go round the loop only, not on the edges that leave it
					ls.Steps = append(ls.Steps, c)
				case "decreases":
					ls.Decreases = append(ls.Decreases, c)
				case "hint":
					ls.Hints = append(ls.Hints, c)
				case "exithint":
					ls.ExitHints = append(ls.ExitHints, c)
				}
			}
			lastClause = c
			pending = &strings.Builder{}
			pending.WriteString(m[4])
			continue
		}
		// continuation line
		if pending != nil {
			pending.WriteString(" ")
			pending.WriteString(line)
			continue
		}
		ss.Errors = append(ss.Errors, fmt.Sprintf("%s:%d: cannot parse: %s", path, lineNo, line))
	}
	finish()
}

// splitTop splits at top-level commas.
func splitTop(s string) []string {
	var out []string
	d := 0
	start := 0
	for i, r := range s {
		switch r {
		case '(', '[':
			d++
		case ')', ']':
			d--
		case ',':
			if d == 0 {
				out = append(out, s[start:i])
				start = i + 1
			}
		}
	}
	out = append(out, s[start:])
	return out
}

func (c *Contract) propSet() map[string]bool {
	m := map[string]bool{}
	for _, p := range c.Props {
		m[p] = true
	}
	add := func(cs []*Clause) {
		for _, cl := range cs {
			for _, p := range cl.Props {
				m[p] = true
			}
		}
	}
	add(c.Requires)
	add(c.Ensures)
	for _, l := range c.Loops {
		add(l.Invariants)
		add(l.Steps)
		add(l.Decreases)
	}
	return m
}
