package main

import (
	"bytes"
	"context"
	"fmt"
	"os"
	"os/exec"
	"path/filepath"
	"strings"
	"sync"
	"time"
)

type Result struct {
	Ob      *Obligation
	Status  string // discharged | refuted | undecided | vacuous | covered
	Solver  string
	Ms      int64
	Model   map[string]string
	Raw     string
	Query   string // path of the query file (kept for failures)
	Detail  string
	Candidate bool // Model comes from the quantifier-free weakening (candidate only)
}

type solverSpec struct {
	name string
	args func(file string, ms int) []string
}

var solvers = []solverSpec{
	{"z3-new", func(f string, ms int) []string { return []string{"z3-new", fmt.Sprintf("-t:%d", ms), f} }},
	{"z3", func(f string, ms int) []string { return []string{"z3", fmt.Sprintf("-t:%d", ms), f} }},
	{"cvc5", func(f string, ms int) []string {
		return []string{"cvc5", fmt.Sprintf("--tlimit=%d", ms), "--strings-exp", "--produce-models", f}
	}},
}

func (fx *FuncCtx) query(ob *Obligation, probes []string) string {
	return fx.queryWith(ob, probes, "")
}

func (fx *FuncCtx) queryWith(ob *Obligation, probes []string, hyp string) string {
	var b bytes.Buffer
	b.WriteString("(set-option :produce-models true)\n(set-logic ALL)\n")
	b.WriteString(fx.preludeText)
	var uses map[string]bool
	if ob.Clause != nil && fx.ct != nil && fx.ct.Uses != nil && ob.Kind != "inv-entry" {
		if list, ok := fx.ct.Uses[ob.Clause.Label]; ok {
			uses = map[string]bool{"inv." + ob.Clause.Label: true}
			for _, u := range list {
				uses[u] = true
			}
		}
	}
	if ob.Kind == "pre" && fx.ct != nil && fx.ct.Uses != nil {
		// call-site preconditions: `uses pre.<callee>.<label>: ...` (label "pre:pkg.(*T).f.lbl@callN")
		l := strings.TrimPrefix(ob.Label, "pre:")
		if i := strings.LastIndex(l, "@"); i >= 0 {
			l = l[:i]
		}
		lbl := l
		callee := ""
		if i := strings.LastIndex(l, "."); i >= 0 {
			lbl = l[i+1:]
			callee = shortCallee(l[:i])
		}
		if list, ok := fx.ct.Uses["pre."+callee+"."+lbl]; ok {
			uses = map[string]bool{}
			for _, u := range list {
				uses[u] = true
			}
		}
	}
	var hidden map[string]bool
	if fx.ct != nil && fx.ct.Uses != nil {
		// `uses hidden: t1 t2 ...`: hypotheses left out of every obligation whose own list does not name them
		if list, ok := fx.ct.Uses["hidden"]; ok {
			hidden = map[string]bool{}
			for _, u := range list {
				hidden[u] = true
			}
			if ob.Kind == "inv-entry" && ob.Clause != nil {
				// an invariant's entry obligation sees every visible hypothesis plus the hidden ones its own list names
				for _, u := range fx.ct.Uses[ob.Clause.Label] {
					delete(hidden, u)
				}
			}
		}
	}
	obRet := ""
	if i := strings.LastIndex(ob.Label, "@ret"); i >= 0 {
		obRet = ob.Label[i:]
	}
	for _, l := range fx.lines[:ob.Prefix] {
		if i := strings.LastIndex(l, ";@hyp:hint."); i >= 0 {
			// a lemma proved at one return is of no use at another (its path condition is false there)
			if j := strings.LastIndex(l, "@ret"); j > i {
				if l[j:] != obRet {
					continue
				}
				l = l[:j]
			}
		}
		if uses == nil && hidden != nil {
			if i := strings.LastIndex(l, ";@hyp:"); i >= 0 && hidden[l[i+6:]] {
				continue
			}
		}
		if uses != nil {
			if i := strings.LastIndex(l, ";@hyp:"); i >= 0 && !uses[l[i+6:]] {
				// hypothesis hidden from this obligation (sound: fewer assumptions);
				// lemmas (hint.*) stay visible unless the list says -hints
				tag := l[i+6:]
				switch {
				case strings.HasPrefix(tag, "hint."):
					if uses["-hints"] {
						continue
					}
				case strings.HasPrefix(tag, "call."):
					if uses["-calls"] {
						continue
					}
				default:
					continue
				}
			}
		}
		b.WriteString(l)
		b.WriteByte('\n')
	}
	if hyp != "" && hyp != "true" {
		b.WriteString("(assert " + hyp + ")\n")
	}
	if ob.Cover {
		b.WriteString("(assert " + and(ob.Reach, ob.Goal) + ")\n")
	} else {
		b.WriteString("(assert (not " + imp(ob.Reach, ob.Goal) + "))\n")
	}
	b.WriteString("(check-sat)\n")
	if len(probes) > 0 && !ob.Cover {
		b.WriteString("(get-value (" + strings.Join(probes, " ") + "))\n")
	}
	return b.String()
}

func runSolver(ctx context.Context, s solverSpec, file string, ms int) (status, out string, dur time.Duration) {
	start := time.Now()
	args := s.args(file, ms)
	cctx, cancel := context.WithTimeout(ctx, time.Duration(ms+2000)*time.Millisecond)
	defer cancel()
	cmd := exec.CommandContext(cctx, args[0], args[1:]...)
	var buf bytes.Buffer
	cmd.Stdout = &buf
	cmd.Stderr = &buf
	cmd.Run()
	dur = time.Since(start)
	out = buf.String()
	first := strings.TrimSpace(strings.SplitN(out, "\n", 2)[0])
	switch first {
	case "unsat", "sat":
		return first, out, dur
	case "unknown", "timeout":
		return "unknown", out, dur
	}
	if strings.Contains(out, "error") || strings.Contains(out, "Error") {
		return "error", out, dur
	}
	return "unknown", out, dur
}

// solve discharges one obligation; obligations with path hypotheses are first tried as a
// whole (short), then once per path: every path must be discharged.
// coverage of a case split depends only on the state it was taken in
var (
	covMu    sync.Mutex
	covCache = map[string]*covEntry{}
)

type covEntry struct {
	once   sync.Once
	status string
	ms     int64
}

func solve(workDir string, idx int, fx *FuncCtx, ob *Obligation, probes []string, timeoutMs int, stringsTheory bool) *Result {
	if len(ob.Paths) > 1 {
		first := 1500 // a short whole attempt settles the easy majority; the case split is the main route otherwise
		r := solveOne(workDir, idx, fx, ob, probes, first, stringsTheory, "")
		if r.Status == "discharged" || r.Status == "refuted" {
			return r
		}
		os.Remove(r.Query)
		// The case split is only a proof if the cases cover the reach condition: the recorded
		// edge conditions come from the longest incoming history of each join, and a path that
		// bypassed one of those joins satisfies none of its alternatives. Prove coverage first.
		cov := *ob
		cov.Clause, cov.Paths, cov.Cover = nil, nil, false
		cov.Kind, cov.Goal = "pathcov", or(ob.Paths...)
		covKey := fx.fn.String() + "|" + ob.Reach + "|" + strings.Join(ob.Paths, "|")
		covMu.Lock()
		ent := covCache[covKey]
		if ent == nil {
			ent = &covEntry{}
			covCache[covKey] = ent
		}
		covMu.Unlock()
		ent.once.Do(func() {
			c := solveOne(workDir, idx*100+1999999, fx, &cov, nil, 4000, stringsTheory, "")
			ent.status, ent.ms = c.Status, c.Ms
			if c.Query != "" {
				os.Remove(c.Query)
			}
		})
		cr := &Result{Status: ent.status, Ms: ent.ms}
		paths := ob.Paths
		if cr.Status != "discharged" {
			if len(ob.PathsLast) < 2 {
				r.Detail = "case split over paths not used: the cases are not shown to cover the reach condition; " + r.Detail
				return r
			}
			paths = ob.PathsLast // the most recent join alone: covers by construction
		} else if cr.Query != "" {
			os.Remove(cr.Query)
		}
		var total int64 = r.Ms + cr.Ms
		for k, h := range paths {
			pr := solveOne(workDir, idx*100+k+1000000, fx, ob, probes, timeoutMs, stringsTheory, h)
			total += pr.Ms
			if pr.Status != "discharged" {
				pr.Ms = total
				pr.Detail = fmt.Sprintf("path %d of %d: %s %s", k+1, len(paths), truncate(h, 200), pr.Detail)
				return pr
			}
			if os.Getenv("GVC_KEEPALL") == "" {
				os.Remove(pr.Query)
			}
		}
		r.Status, r.Solver, r.Ms = "discharged", "per-path", total
		return r
	}
	return solveOne(workDir, idx, fx, ob, probes, timeoutMs, stringsTheory, "")
}

func solveOne(workDir string, idx int, fx *FuncCtx, ob *Obligation, probes []string, timeoutMs int, stringsTheory bool, hyp string) *Result {
	q := fx.queryWith(ob, probes, hyp)
	file := filepath.Join(workDir, fmt.Sprintf("q%05d.smt2", idx))
	os.WriteFile(file, []byte(q), 0o644)
	res := &Result{Ob: ob, Query: file}
	finish := func(status, solver, out string, d time.Duration) *Result {
		res.Solver = solver
		res.Ms = d.Milliseconds()
		res.Raw = out
		switch {
		case ob.Cover && status == "sat":
			res.Status = "covered"
		case ob.Cover && status == "unsat":
			res.Status = "vacuous"
		case ob.Cover:
			res.Status = "covered" // not shown contradictory
			res.Detail = "cover undecided (not contradictory as far as the solvers can tell)"
		case status == "unsat":
			res.Status = "discharged"
		case status == "sat":
			res.Status = "refuted"
			res.Model = parseValues(out)
		default:
			res.Status = "undecided"
		}
		return res
	}
	ctx := context.Background()
	total := time.Duration(0)
	if ob.Cover {
		// vacuity probes only matter when they come back unsat, which is quick when it happens
		st, out, d := runSolver(ctx, solvers[0], file, 1500)
		return finish(st, solvers[0].name, out, d)
	}
	if false && strings.Contains(q, "(define-fun-rec ") && !ob.Cover {
		// stage 0: recursive definitions slow unrelated goals down; first try without
		// them (dropping definitions and the assumptions that mention them only weakens the context)
		lfile := file + ".lite.smt2"
		os.WriteFile(lfile, []byte(dropRecFuns(q)), 0o644)
		st, out, d := runSolver(ctx, solvers[0], lfile, 2000)
		os.Remove(lfile)
		total += d
		if st == "unsat" {
			return finish(st, solvers[0].name+"(no-recfun)", out, total)
		}
	}
	if !stringsTheory {
		// stage 1: the solver that decides most goals instantly
		first := timeoutMs
		if first > 2000 {
			first = 2000
		}
		st, out, d := runSolver(ctx, solvers[0], file, first)
		total += d
		if st == "unsat" || st == "sat" {
			return finish(st, solvers[0].name, out, total)
		}
	}
	// stage 2: race all solvers; in parallel look for a candidate model in the
	// quantifier-free weakening of the query (refutable quantified goals come
	// back as timeouts, never as sat).
	type ans struct {
		st, out, name string
		d             time.Duration
	}
	cctx, cancel := context.WithCancel(ctx)
	defer cancel()
	ch := make(chan ans, len(solvers))
	for _, s := range solvers {
		s := s
		go func() {
			st, out, d := runSolver(cctx, s, file, timeoutMs)
			ch <- ans{st, out, s.name, d}
		}()
	}
	candCh := make(chan map[string]string, 1)
	go func() {
		if ob.Cover {
			candCh <- nil
			return
		}
		wfile := file + ".weak.smt2"
		os.WriteFile(wfile, []byte(weaken(q)), 0o644)
		defer os.Remove(wfile)
		st, out, _ := runSolver(cctx, solvers[0], wfile, 3000)
		if st == "sat" {
			candCh <- parseValues(out)
			return
		}
		candCh <- nil
	}()
	var last ans
	var errs []string
	for range solvers {
		a := <-ch
		if a.st == "unsat" || a.st == "sat" {
			return finish(a.st, a.name, a.out, total+a.d)
		}
		if a.st == "error" {
			errs = append(errs, a.name+": "+firstLines(a.out, 2))
		}
		if a.d > last.d {
			last = a
		}
	}
	r := finish("unknown", "portfolio", last.out, total+last.d)
	if cand := <-candCh; cand != nil {
		r.Model = cand
		r.Candidate = true
	}
	if len(errs) > 0 {
		r.Detail = strings.Join(errs, " | ")
	}
	return r
}

// weaken drops every assertion that contains a quantifier: the result
// over-approximates the context, so its models are only candidates.
func weaken(q string) string {
	var b strings.Builder
	for _, l := range strings.Split(q, "\n") {
		if strings.HasPrefix(l, "(assert ") && (strings.Contains(l, "(forall ") || strings.Contains(l, "(exists ")) {
			if !strings.HasPrefix(l, "(assert (not ") {
				continue
			}
		}
		b.WriteString(l)
		b.WriteByte('\n')
	}
	return b.String()
}

func firstLines(s string, n int) string {
	ls := strings.Split(strings.TrimSpace(s), "\n")
	if len(ls) > n {
		ls = ls[:n]
	}
	return strings.Join(ls, " / ")
}

// parseValues parses the output of (get-value (...)) into term -> value.
func parseValues(out string) map[string]string {
	m := map[string]string{}
	i := strings.Index(out, "\n")
	if i < 0 {
		return m
	}
	s := strings.TrimSpace(out[i+1:])
	if !strings.HasPrefix(s, "(") {
		return m
	}
	// s = ((term value) (term value) ...)
	items := splitSexps(s[1:])
	for _, it := range items {
		it = strings.TrimSpace(it)
		if !strings.HasPrefix(it, "(") {
			continue
		}
		kv := splitSexps(it[1 : len(it)-1])
		if len(kv) == 2 {
			m[strings.TrimSpace(kv[0])] = normValue(strings.TrimSpace(kv[1]))
		}
	}
	return m
}

func normValue(v string) string {
	v = strings.TrimSpace(v)
	if strings.HasPrefix(v, "(- ") && strings.HasSuffix(v, ")") {
		return "-" + strings.TrimSpace(v[3:len(v)-1])
	}
	return v
}

// splitSexps splits a sequence of s-expressions at top level (until an unmatched ')').
func splitSexps(s string) []string {
	var out []string
	i := 0
	for i < len(s) {
		for i < len(s) && (s[i] == ' ' || s[i] == '\n' || s[i] == '\t' || s[i] == '\r') {
			i++
		}
		if i >= len(s) || s[i] == ')' {
			break
		}
		start := i
		if s[i] == '(' {
			d := 0
			for i < len(s) {
				if s[i] == '"' {
					i++
					for i < len(s) && s[i] != '"' {
						i++
					}
				} else if s[i] == '(' {
					d++
				} else if s[i] == ')' {
					d--
					if d == 0 {
						i++
						break
					}
				}
				i++
			}
		} else if s[i] == '"' {
			i++
			for i < len(s) {
				if s[i] == '"' {
					if i+1 < len(s) && s[i+1] == '"' {
						i += 2
						continue
					}
					i++
					break
				}
				i++
			}
		} else {
			for i < len(s) && s[i] != ' ' && s[i] != '\n' && s[i] != ')' && s[i] != '\t' {
				i++
			}
		}
		out = append(out, s[start:i])
	}
	return out
}

// dischargeAll solves all obligations of a function in parallel.
func dischargeAll(workDir string, fx *FuncCtx, probes []string, timeoutMs, workers int, sem chan struct{}) []*Result {
	results := make([]*Result, len(fx.obls))
	var wg sync.WaitGroup
	stringsTheory := fx.u.strings
	for i, ob := range fx.obls {
		if fx.ct != nil && len(fx.ct.Props) == 0 && len(ob.Tags) == 0 && !ob.Cover {
			// a function without a props line is under contract only for its tagged clauses:
			// its untagged safety/frame obligations belong to no property and are not attempted
			results[i] = &Result{Ob: ob, Status: "undecided", Solver: "not attempted (no property claims this obligation)"}
			continue
		}
		wg.Add(1)
		i, ob := i, ob
		sem <- struct{}{}
		go func() {
			defer wg.Done()
			defer func() { <-sem }()
			t := timeoutMs
			if fx.shortTimeout != nil && fx.shortTimeout(ob.Name) && t > 5000 {
				t = 5000
			}
			results[i] = solve(workDir, i, fx, ob, probes, t, stringsTheory)
		}()
	}
	wg.Wait()
	return results
}

// dropRecFuns removes recursive definitions and every assertion mentioning
// them; when the goal itself mentions one the query is returned unchanged.
func dropRecFuns(q string) string {
	lines := strings.Split(q, "\n")
	var names []string
	for _, l := range lines {
		if strings.HasPrefix(l, "(define-fun-rec ") {
			f := strings.Fields(l[len("(define-fun-rec "):])
			if len(f) > 0 {
				names = append(names, f[0])
			}
		}
	}
	mentions := func(l string) bool {
		for _, n := range names {
			if strings.Contains(l, n) {
				return true
			}
		}
		return false
	}
	// the goal is the last assert before (check-sat)
	for i := len(lines) - 1; i >= 0; i-- {
		if strings.HasPrefix(lines[i], "(assert (not ") {
			if mentions(lines[i]) {
				return q
			}
			break
		}
	}
	var b strings.Builder
	dropped := map[string]bool{}
	for _, l := range lines {
		if mentions(l) {
			// a define-fun that depends on a recursive function: drop it and whatever uses it
			if strings.HasPrefix(l, "(define-fun ") {
				f := strings.Fields(l[len("(define-fun "):])
				if len(f) > 0 {
					dropped[f[0]] = true
					names = append(names, f[0])
				}
			}
			continue
		}
		b.WriteString(l)
		b.WriteByte('\n')
	}
	return b.String()
}
