package main

import (
	"fmt"
	"go/types"
	"sort"
	"strings"
)

// Universe holds everything that ends up in the SMT prelude: datatypes for Go
// struct types, uninterpreted sorts, uninterpreted functions, string literals.
// One Universe per verified function (so that queries stay small).
type Universe struct {
	fnRefs []string // function constants declared so far (pairwise distinct)
	structSorts map[string]*types.Struct // sort name -> struct
	structOrder []string
	opaque      map[string]bool   // uninterpreted sorts
	ufs         map[string]string // name -> full declaration line
	ufOrder     []string
	lits        map[string]string // Go string literal -> smt constant name
	litOrder    []string
	axioms      []string
	tags        map[string]int // dynamic type string -> tag id
	tagOrder    []string
	strings     bool // theory strings
	needOrder   bool // string ordering axioms requested
	extIfaces   []string
	bodyText    string // body + goals, to decide which axioms are needed
	trgAxiom    bool
}

func newUniverse(theoryStrings bool) *Universe {
	return &Universe{
		structSorts: map[string]*types.Struct{},
		opaque:      map[string]bool{},
		ufs:         map[string]string{},
		lits:        map[string]string{},
		tags:        map[string]int{},
		strings:     theoryStrings,
	}
}

func sanitize(s string) string {
	var b strings.Builder
	for _, r := range s {
		switch {
		case r >= 'a' && r <= 'z', r >= 'A' && r <= 'Z', r >= '0' && r <= '9', r == '_':
			b.WriteRune(r)
		case r == '.' || r == '/':
			b.WriteRune('_')
		case r == '*':
			b.WriteString("P")
		case r == '[' || r == ']':
			b.WriteString("L")
		default:
			b.WriteString("_")
		}
	}
	return b.String()
}

func shortTypeName(t types.Type) string {
	return types.TypeString(t, func(p *types.Package) string { return p.Name() })
}

// isLockType reports sync.Mutex / sync.RWMutex, modelled as an Int lock state.
func isLockType(t types.Type) bool {
	if n, ok := t.(*types.Named); ok && n.Obj().Pkg() != nil && n.Obj().Pkg().Path() == "sync" {
		return n.Obj().Name() == "Mutex" || n.Obj().Name() == "RWMutex"
	}
	return false
}

func (u *Universe) strSort() string {
	if u.strings {
		return "String"
	}
	return "Str"
}

// sortOf maps a Go type to an SMT sort name.
func (u *Universe) sortOf(t types.Type) string {
	if isLockType(t) {
		return "Int"
	}
	switch tt := t.Underlying().(type) {
	case *types.Basic:
		switch {
		case tt.Info()&types.IsBoolean != 0:
			return "Bool"
		case tt.Info()&types.IsInteger != 0:
			return "Int"
		case tt.Info()&types.IsString != 0:
			return u.strSort()
		case tt.Info()&types.IsFloat != 0:
			return "Real"
		case tt.Kind() == types.UnsafePointer:
			return "Int"
		case tt.Kind() == types.UntypedNil:
			return "Int"
		}
		u.opaque["O_basic"] = true
		return "O_basic"
	case *types.Pointer, *types.Map, *types.Chan, *types.Signature:
		return "Int"
	case *types.Slice:
		return "Sl"
	case *types.Interface:
		return "If"
	case *types.Array:
		return "(Array Int " + u.sortOf(tt.Elem()) + ")"
	case *types.Struct:
		name := "S_" + sanitize(shortTypeName(t))
		if _, ok := t.(*types.Named); !ok {
			name = fmt.Sprintf("S_anon%d", len(shortTypeName(t))) + "_" + sanitize(shortTypeName(t))
			if len(name) > 60 {
				name = name[:60]
			}
		}
		if _, ok := u.structSorts[name]; !ok {
			u.structSorts[name] = tt
			// make sure field sorts are registered first
			for i := 0; i < tt.NumFields(); i++ {
				u.sortOf(tt.Field(i).Type())
			}
			u.structOrder = append(u.structOrder, name)
		}
		return name
	case *types.Tuple:
		return "TUPLE"
	}
	n := "O_" + sanitize(shortTypeName(t))
	u.opaque[n] = true
	return n
}

func (u *Universe) fieldAcc(structSort string, i int) string {
	return fmt.Sprintf("%s$f%d", structSort, i)
}

// zero returns the zero value term of a Go type.
func (u *Universe) zero(t types.Type) string {
	if isLockType(t) {
		return "0"
	}
	switch tt := t.Underlying().(type) {
	case *types.Basic:
		switch {
		case tt.Info()&types.IsBoolean != 0:
			return "false"
		case tt.Info()&types.IsInteger != 0:
			return "0"
		case tt.Info()&types.IsString != 0:
			return u.strLit("")
		case tt.Info()&types.IsFloat != 0:
			return "0.0"
		}
		return "0"
	case *types.Pointer, *types.Map, *types.Chan, *types.Signature:
		return "0"
	case *types.Slice:
		return "(mk_sl 0 0 0 0)"
	case *types.Interface:
		return "(mk_if 0 0)"
	case *types.Array:
		return "((as const " + u.sortOf(t) + ") " + u.zero(tt.Elem()) + ")"
	case *types.Struct:
		s := u.sortOf(t)
		if tt.NumFields() == 0 {
			return "mk_" + s
		}
		parts := []string{"mk_" + s}
		for i := 0; i < tt.NumFields(); i++ {
			parts = append(parts, u.zero(tt.Field(i).Type()))
		}
		return "(" + strings.Join(parts, " ") + ")"
	}
	s := u.sortOf(t)
	return u.uf("zero$"+s, "(declare-const zero$"+s+" "+s+")")
}

func (u *Universe) uf(name, decl string) string {
	if _, ok := u.ufs[name]; !ok {
		u.ufs[name] = decl
		u.ufOrder = append(u.ufOrder, name)
	}
	return name
}

func smtStringLit(s string) string {
	var b strings.Builder
	b.WriteByte('"')
	for _, c := range []byte(s) {
		switch {
		case c == '"':
			b.WriteString(`""`)
		case c >= 0x20 && c < 0x7f && c != '\\':
			b.WriteByte(c)
		default:
			fmt.Fprintf(&b, "\\u{%x}", c)
		}
	}
	b.WriteByte('"')
	return b.String()
}

func (u *Universe) strLit(s string) string {
	if u.strings {
		return smtStringLit(s)
	}
	if n, ok := u.lits[s]; ok {
		return n
	}
	n := fmt.Sprintf("lit$%d", len(u.lits))
	if s == "" {
		n = "lit$empty"
	}
	u.lits[s] = n
	u.litOrder = append(u.litOrder, s)
	return n
}

func (u *Universe) slen(s string) string {
	if u.strings {
		return "(str.len " + s + ")"
	}
	return "(slen " + s + ")"
}

func (u *Universe) sconcat(a, b string) string {
	if u.strings {
		return "(str.++ " + a + " " + b + ")"
	}
	return "(sconcat " + a + " " + b + ")"
}

func (u *Universe) slt(a, b string) string {
	if u.strings {
		return "(str.< " + a + " " + b + ")"
	}
	u.needOrder = true
	return "(slt " + a + " " + b + ")"
}

func (u *Universe) ssub(s, lo, hi string) string {
	if u.strings {
		return "(str.substr " + s + " " + lo + " (- " + hi + " " + lo + "))"
	}
	return "(ssub " + s + " " + lo + " " + hi + ")"
}

func (u *Universe) tagOf(t types.Type) int {
	return u.tagOfKey(types.TypeString(t, nil))
}

func (u *Universe) tagOfKey(k string) int {
	if id, ok := u.tags[k]; ok {
		return id
	}
	id := len(u.tags) + 1
	u.tags[k] = id
	u.tagOrder = append(u.tagOrder, k)
	return id
}

// boxed reports whether values of dynamic type t are boxed inside interfaces
// (true) or carried directly as the reference (false).
func boxed(t types.Type) bool {
	switch t.Underlying().(type) {
	case *types.Pointer, *types.Map, *types.Chan, *types.Signature:
		return false
	}
	return true
}

func (u *Universe) boxFn(sortName string) (box, unbox string) {
	key := sanitize(sortName)
	box = "box$" + key
	unbox = "unbox$" + key
	u.uf(box, fmt.Sprintf("(declare-fun %s (%s) Int)", box, sortName))
	if _, ok := u.ufs[unbox]; !ok {
		u.uf(unbox, fmt.Sprintf("(declare-fun %s (Int) %s)", unbox, sortName))
		u.axioms = append(u.axioms, fmt.Sprintf("(assert (forall ((x!b %s)) (! (= (%s (%s x!b)) x!b) :pattern ((%s x!b)))))", sortName, unbox, box, box))
		if sortName == "Str" || sortName == "String" || sortName == "Int" {
			// payloads of boxed interface values are box images: only for sorts that are
			// certainly infinite, where box can be taken to be a bijection onto the payload
			// space (for a finite sort such as an empty struct the axiom would be contradictory)
			u.axioms = append(u.axioms, fmt.Sprintf("(assert (forall ((v!b Int)) (! (= (%s (%s v!b)) v!b) :pattern ((%s v!b)))))", box, unbox, unbox))
		}
	}
	return
}

// prelude renders the declarations needed before the function body.
func (u *Universe) prelude() string {
	var b strings.Builder
	if !u.strings {
		b.WriteString("(declare-sort Str 0)\n(declare-fun slen (Str) Int)\n")
		b.WriteString("(declare-fun sconcat (Str Str) Str)\n(declare-fun ssub (Str Int Int) Str)\n(declare-fun sat (Str Int) Int)\n")
	}
	b.WriteString("(declare-datatypes ((Sl 0)) (((mk_sl (sl_arr Int) (sl_off Int) (sl_len Int) (sl_cap Int)))))\n")
	b.WriteString("(declare-datatypes ((If 0)) (((mk_if (if_tag Int) (if_val Int)))))\n")
	ops := make([]string, 0, len(u.opaque))
	for k := range u.opaque {
		ops = append(ops, k)
	}
	sort.Strings(ops)
	for _, k := range ops {
		fmt.Fprintf(&b, "(declare-sort %s 0)\n", k)
	}
	for _, name := range u.structOrder {
		st := u.structSorts[name]
		fmt.Fprintf(&b, "(declare-datatypes ((%s 0)) (((mk_%s", name, name)
		for i := 0; i < st.NumFields(); i++ {
			fmt.Fprintf(&b, " (%s %s)", u.fieldAcc(name, i), u.sortOf(st.Field(i).Type()))
		}
		b.WriteString("))))\n")
	}
	if !u.strings {
		for _, s := range u.litOrder {
			fmt.Fprintf(&b, "(declare-const %s Str) ; %q\n", u.lits[s], s)
			fmt.Fprintf(&b, "(assert (= (slen %s) %d))\n", u.lits[s], len(s))
		}
		if len(u.litOrder) > 1 {
			b.WriteString("(assert (distinct")
			for _, s := range u.litOrder {
				b.WriteString(" " + u.lits[s])
			}
			b.WriteString("))\n")
		}
		body := u.bodyText
		if strings.Contains(body, "(slen ") {
			b.WriteString("(assert (forall ((s Str)) (! (and (>= (slen s) 0) (<= (slen s) 281474976710655)) :pattern ((slen s)))))\n")
			if _, ok := u.lits[""]; ok {
				b.WriteString("(assert (forall ((s Str)) (! (=> (= (slen s) 0) (= s lit$empty)) :pattern ((slen s)))))\n")
			}
		}
		if strings.Contains(body, "(sconcat ") {
			b.WriteString("(assert (forall ((a Str) (b Str)) (! (= (slen (sconcat a b)) (+ (slen a) (slen b))) :pattern ((sconcat a b)))))\n")
		}
		if strings.Contains(body, "(ssub ") {
			b.WriteString("(assert (forall ((a Str) (i Int) (j Int)) (! (=> (and (<= 0 i) (<= i j) (<= j (slen a))) (= (slen (ssub a i j)) (- j i))) :pattern ((ssub a i j)))))\n")
		}
		if strings.Contains(body, "(sat ") {
			b.WriteString("(assert (forall ((a Str) (i Int)) (! (and (<= 0 (sat a i)) (<= (sat a i) 255)) :pattern ((sat a i)))))\n")
		}
		if u.needOrder {
			// The byte-wise order of strings is a countable linear order, so it embeds
			// into the rationals: slt(a, b) is srank(a) < srank(b) for an injective rank.
			// (No transitivity/totality axioms: real arithmetic provides them.)
			b.WriteString("(declare-fun srank (Str) Real)\n(declare-fun sunrank (Real) Str)\n")
			b.WriteString("(define-fun slt ((a Str) (b Str)) Bool (< (srank a) (srank b)))\n")
			b.WriteString("(assert (forall ((a Str)) (! (= (sunrank (srank a)) a) :pattern ((srank a)))))\n")
			if _, ok := u.lits[""]; ok {
				b.WriteString("(assert (forall ((a Str)) (! (<= (srank lit$empty) (srank a)) :pattern ((srank a)))))\n")
			}
		}
	}
	for _, n := range u.ufOrder {
		b.WriteString(u.ufs[n] + "\n")
	}
	for _, a := range u.axioms {
		b.WriteString(a + "\n")
	}
	if u.trgAxiom {
		b.WriteString("(assert (forall ((x!t Int)) (! (=> (trg x!t) (trg1 x!t)) :pattern ((trg x!t)))))\n")
	}
	if len(u.extIfaces) > 1 {
		b.WriteString("(assert (distinct " + strings.Join(u.extIfaces, " ") + "))\n")
	}
	return b.String()
}

// intRange returns lo, hi (as decimal strings) for integer basic types.
func intRange(t types.Type) (lo, hi string, ok bool) {
	b, isB := t.Underlying().(*types.Basic)
	if !isB || b.Info()&types.IsInteger == 0 {
		return "", "", false
	}
	switch b.Kind() {
	case types.Int8:
		return "(- 128)", "127", true
	case types.Int16:
		return "(- 32768)", "32767", true
	case types.Int32:
		return "(- 2147483648)", "2147483647", true
	case types.Int, types.Int64, types.UntypedInt, types.UntypedRune:
		return "(- 9223372036854775808)", "9223372036854775807", true
	case types.Uint8:
		return "0", "255", true
	case types.Uint16:
		return "0", "65535", true
	case types.Uint32:
		return "0", "4294967295", true
	case types.Uint, types.Uint64, types.Uintptr:
		return "0", "18446744073709551615", true
	}
	return "", "", false
}

func and(ts ...string) string {
	var xs []string
	for _, t := range ts {
		if t == "true" || t == "" {
			continue
		}
		if t == "false" {
			return "false"
		}
		xs = append(xs, t)
	}
	switch len(xs) {
	case 0:
		return "true"
	case 1:
		return xs[0]
	}
	return "(and " + strings.Join(xs, " ") + ")"
}

func or(ts ...string) string {
	var xs []string
	for _, t := range ts {
		if t == "false" || t == "" {
			continue
		}
		if t == "true" {
			return "true"
		}
		xs = append(xs, t)
	}
	switch len(xs) {
	case 0:
		return "false"
	case 1:
		return xs[0]
	}
	return "(or " + strings.Join(xs, " ") + ")"
}

func not(t string) string {
	switch t {
	case "true":
		return "false"
	case "false":
		return "true"
	}
	if strings.HasPrefix(t, "(not ") && balanced(t[5:len(t)-1]) {
		return t[5 : len(t)-1]
	}
	return "(not " + t + ")"
}

func balanced(s string) bool {
	d := 0
	for i := 0; i < len(s); i++ {
		switch s[i] {
		case '(':
			d++
		case ')':
			d--
			if d < 0 {
				return false
			}
		case '"':
			for i++; i < len(s) && s[i] != '"'; i++ {
			}
		}
	}
	return d == 0
}

func imp(a, b string) string {
	if a == "true" {
		return b
	}
	if a == "false" || b == "true" {
		return "true"
	}
	return "(=> " + a + " " + b + ")"
}

func ite(c, a, b string) string {
	if c == "true" || a == b {
		return a
	}
	if c == "false" {
		return b
	}
	return "(ite " + c + " " + a + " " + b + ")"
}

func intLit(v string) string {
	if strings.HasPrefix(v, "-") {
		return "(- " + v[1:] + ")"
	}
	return v
}
