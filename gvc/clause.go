package main

import (
	"fmt"
	"regexp"
	"sort"
	"go/ast"
	"go/constant"
	"go/token"
	"go/types"
	"strconv"
	"strings"

	"golang.org/x/tools/go/ssa"
)

// Env is the evaluation environment of a clause.
type Env struct {
	fx     *FuncCtx
	st     *State
	old    *State
	vars   map[string]*Val
	pkg    *types.Package
	fn     *ssa.Function // function whose locals may be named (nil: none)
	at     *ssa.BasicBlock
	errs   *[]string
	bound  map[string]bool
	lets   map[string]ast.Expr
	depth  int
	recs   map[string]string // recfun name -> SMT function symbol
	firstLevel bool // all0: assumed quantifier that fires on first-level triggers only
	goal     bool // polarity: true = this subformula has to be proved, false = it may be assumed
	underAll bool // inside the body of an assumed all(...)
}

func (fx *FuncCtx) clauseEnv(st, old *State, rets []*Val) *Env {
	vars := map[string]*Val{}
	for k, v := range fx.params {
		vars[k] = v
	}
	if rets != nil {
		res := fx.fn.Signature.Results()
		for i, r := range rets {
			vars[fmt.Sprintf("ret%d", i)] = r
			if i < res.Len() && res.At(i).Name() != "" && res.At(i).Name() != "_" {
				vars[res.At(i).Name()] = r
			}
		}
	}
	var pkg *types.Package
	if fx.fn.Pkg != nil {
		pkg = fx.fn.Pkg.Pkg
	} else if fx.fn.Parent() != nil && fx.fn.Parent().Pkg != nil {
		pkg = fx.fn.Parent().Pkg.Pkg
	}
	e := &Env{fx: fx, st: st, old: old, vars: vars, pkg: pkg, errs: &fx.clauseErrs}
	if fx.ct != nil {
		e.lets = fx.ct.Lets
		e.recs = fx.ownRecs
	}
	if rets == nil {
		e.fn = fx.fn
		e.at = fx.curBlock
	} else {
		e.fn = nil
	}
	return e
}

func (e *Env) errorf(format string, a ...interface{}) *Val {
	msg := fmt.Sprintf(format, a...)
	*e.errs = append(*e.errs, msg)
	return &Val{T: "false", Ty: types.Typ[types.Bool], Bad: msg}
}

// evalGoal evaluates a clause that is about to be proved (not assumed).
func (fx *FuncCtx) evalGoal(c *Clause, env *Env) string {
	env.goal = true
	return fx.evalClause(c, env)
}

// evalClause evaluates a boolean clause to an SMT term.
func (fx *FuncCtx) evalClause(c *Clause, env *Env) string {
	if c.Expr == nil {
		fx.clauseErrs = append(fx.clauseErrs, "clause "+c.Label+" has no expression")
		return "false"
	}
	n := len(*env.errs)
	v := env.eval(c.Expr)
	if len(*env.errs) > n {
		for i := n; i < len(*env.errs); i++ {
			(*env.errs)[i] = fmt.Sprintf("%s:%d clause %s: %s", c.File, c.Line, c.Label, (*env.errs)[i])
		}
		return "false"
	}
	if v.T == "" {
		fx.clauseErrs = append(fx.clauseErrs, fmt.Sprintf("%s:%d clause %s: not a term (%s)", c.File, c.Line, c.Label, v.Bad))
		return "false"
	}
	return v.T
}

var boolT = types.Typ[types.Bool]
var intT = types.Typ[types.Int]
var strT = types.Typ[types.String]

func (e *Env) flip() *Env {
	n := *e
	n.goal = !e.goal
	return &n
}

// containsQuant reports whether a clause expression contains a bounded quantifier.
func containsQuant(x ast.Expr) bool {
	found := false
	ast.Inspect(x, func(n ast.Node) bool {
		if c, ok := n.(*ast.CallExpr); ok {
			if id, ok := c.Fun.(*ast.Ident); ok && (id.Name == "ex" || id.Name == "all") {
				found = true
			}
			if id, ok := c.Fun.(*ast.Ident); ok && !found {
				_ = id
			}
		}
		return !found
	})
	return found
}

func (e *Env) with(st *State) *Env {
	n := *e
	n.st = st
	return &n
}

func (e *Env) bind(name string, v *Val) *Env {
	n := *e
	n.vars = map[string]*Val{}
	for k, x := range e.vars {
		n.vars[k] = x
	}
	n.vars[name] = v
	return &n
}

func (e *Env) eval(x ast.Expr) *Val {
	fx := e.fx
	switch x := x.(type) {
	case *ast.ParenExpr:
		return e.eval(x.X)
	case *ast.BasicLit:
		switch x.Kind {
		case token.INT:
			v := constant.MakeFromLiteral(x.Value, token.INT, 0)
			return &Val{T: intLit(v.ExactString()), Ty: types.Typ[types.UntypedInt]}
		case token.STRING:
			s, err := strconv.Unquote(x.Value)
			if err != nil {
				return e.errorf("bad string literal %s", x.Value)
			}
			return &Val{T: fx.u.strLit(s), Ty: strT}
		case token.CHAR:
			s, _, _, err := strconv.UnquoteChar(x.Value[1:len(x.Value)-1], '\'')
			if err != nil {
				return e.errorf("bad char literal")
			}
			return &Val{T: fmt.Sprint(int(s)), Ty: types.Typ[types.UntypedInt]}
		}
		return e.errorf("literal %s", x.Value)
	case *ast.Ident:
		return e.ident(x.Name)
	case *ast.SelectorExpr:
		if id, ok := x.X.(*ast.Ident); ok {
			if _, isVar := e.vars[id.Name]; !isVar && e.lookupLocal(id.Name) == nil {
				if p := e.importedPkg(id.Name); p != nil {
					return e.pkgMember(p, x.Sel.Name)
				}
			}
		}
		base := e.eval(x.X)
		if base.Bad != "" && base.T == "" {
			return base
		}
		return e.selectField(base, x.Sel.Name)
	case *ast.StarExpr:
		p := e.eval(x.X)
		return fx.loadQuiet(e.st, fx.asAddr(p))
	case *ast.UnaryExpr:
		ev := e
		if x.Op == token.NOT {
			ev = e.flip()
		}
		v := ev.eval(x.X)
		switch x.Op {
		case token.NOT:
			return &Val{T: not(v.T), Ty: boolT}
		case token.SUB:
			return &Val{T: "(- " + v.T + ")", Ty: v.Ty}
		}
		return e.errorf("unary %s", x.Op)
	case *ast.BinaryExpr:
		return e.binary(x)
	case *ast.IndexExpr:
		base := e.eval(x.X)
		idx := e.eval(x.Index)
		return e.index(base, idx)
	case *ast.CallExpr:
		return e.call(x)
	}
	return e.errorf("unsupported expression %T", x)
}

func (e *Env) importedPkg(name string) *types.Package {
	if e.pkg == nil {
		return nil
	}
	for _, imp := range e.pkg.Imports() {
		if imp.Name() == name {
			return imp
		}
	}
	// also allow naming packages known to the program
	return e.fx.eng.pkgByName(name)
}

func (e *Env) pkgMember(p *types.Package, name string) *Val {
	obj := p.Scope().Lookup(name)
	if obj == nil {
		return e.errorf("%s.%s not found", p.Name(), name)
	}
	return e.object(obj)
}

func (e *Env) object(obj types.Object) *Val {
	fx := e.fx
	switch o := obj.(type) {
	case *types.Const:
		switch o.Val().Kind() {
		case constant.Int:
			return &Val{T: intLit(o.Val().ExactString()), Ty: o.Type()}
		case constant.String:
			return &Val{T: fx.u.strLit(constant.StringVal(o.Val())), Ty: o.Type()}
		case constant.Bool:
			return &Val{T: fmt.Sprint(constant.BoolVal(o.Val())), Ty: boolT}
		}
	case *types.Var:
		g := fx.eng.globalFor(o)
		if g != nil {
			a := &Addr{Kind: AGlobal, Glob: g, Root: deref(g.Type()), Ty: deref(g.Type())}
			return fx.loadQuiet(e.st, a)
		}
	case *types.TypeName:
		return &Val{Ty: o.Type(), Bad: "type"}
	}
	return e.errorf("cannot use %s in a clause", obj.Name())
}

func (e *Env) lookupLocal(name string) *ssa.Alloc {
	if e.fn == nil {
		return nil
	}
	want := -1
	if i := strings.LastIndex(name, "__"); i > 0 {
		if k, err := strconv.Atoi(name[i+2:]); err == nil {
			want = k
			name = name[:i]
		}
	}
	var best *ssa.Alloc
	k := 0
	for _, b := range e.fn.Blocks {
		for _, ins := range b.Instrs {
			a, ok := ins.(*ssa.Alloc)
			if !ok || a.Comment != name {
				continue
			}
			k++
			if want > 0 {
				if k == want {
					return a
				}
				continue
			}
			if e.at == nil || b == e.at || b.Dominates(e.at) {
				best = a
			}
		}
	}
	return best
}

func (e *Env) ident(name string) *Val {
	fx := e.fx
	switch name {
	case "true", "false":
		return &Val{T: name, Ty: boolT}
	case "nil":
		return &Val{T: "0", Ty: types.Typ[types.UntypedNil]}
	}
	if e.bound[name] {
		return e.vars[name]
	}
	if a := e.lookupLocal(name); a != nil {
		if !a.Heap {
			if c, ok := e.st.Cells[a]; ok {
				return c
			}
		} else if pv, ok := fx.vals[a]; ok {
			elem := deref(a.Type())
			if isStruct(elem) {
				return pv
			}
			return fx.loadQuiet(e.st, fx.asAddr(pv))
		}
	}
	if v, ok := e.vars[name]; ok {
		return v
	}
	if le, ok := e.lets[name]; ok && e.depth < 20 {
		ne := *e
		ne.depth++
		return ne.eval(le)
	}
	if e.pkg != nil {
		if obj := e.pkg.Scope().Lookup(name); obj != nil {
			return e.object(obj)
		}
	}
	if g, ok := fx.eng.specs.Ghosts[name]; ok {
		var ty types.Type
		if g.Sort == "Sl" {
			ty = fx.eng.ghostType(g)
		}
		return &Val{T: fx.heapGet(e.st, "G$"+g.Name, g.Sort), Ty: ty}
	}
	return e.errorf("unknown identifier %s", name)
}

// loadQuiet loads without emitting type facts or obligations (clause context).
func (fx *FuncCtx) loadQuiet(st *State, a *Addr) *Val {
	switch a.Kind {
	case ALocal:
		cell := st.Cells[a.Alloc]
		if cell == nil {
			return &Val{T: fx.u.zero(a.Root), Ty: a.Root}
		}
		if len(a.Path) == 0 {
			return cell
		}
		t, ty := fx.project(cell.T, a.Root, a.Path)
		return &Val{T: t, Ty: ty}
	case AField:
		return &Val{T: fx.loadField(st, a.Base, a.Root, a.Path, a.Ty), Ty: a.Ty}
	case AElem:
		name, cs := elemComp(fx.u, a.Root)
		h := fx.heapGet(st, name, cs)
		t := "(select (select " + h + " " + a.Arr + ") " + a.Idx + ")"
		t, _ = fx.project(t, a.Root, a.Path)
		return &Val{T: t, Ty: a.Ty}
	case ACell:
		if isStruct(a.Root) {
			return &Val{T: fx.loadField(st, a.Base, a.Root, a.Path, a.Ty), Ty: a.Ty}
		}
		name, cs := cellComp(fx.u, a.Root)
		h := fx.heapGet(st, name, cs)
		t := "(select " + h + " " + a.Base + ")"
		t, _ = fx.project(t, a.Root, a.Path)
		return &Val{T: t, Ty: a.Ty}
	case AGlobal:
		if c := fx.eng.globalConst(fx, a.Glob); c != nil && len(a.Path) == 0 {
			return c
		}
		h := fx.heapGet(st, globComp(a.Glob), fx.u.sortOf(a.Root))
		t, _ := fx.project(h, a.Root, a.Path)
		return &Val{T: t, Ty: a.Ty}
	}
	return &Val{Ty: a.Ty, Bad: "load"}
}

func (e *Env) selectField(base *Val, name string) *Val {
	fx := e.fx
	if base.Ty == nil {
		return e.errorf("field %s of untyped value", name)
	}
	obj, path, _ := types.LookupFieldOrMethod(base.Ty, true, e.pkgOf(base.Ty), name)
	fld, ok := obj.(*types.Var)
	if !ok || !fld.IsField() {
		return e.errorf("no field %s in %s", name, base.Ty)
	}
	if _, isPtr := base.Ty.Underlying().(*types.Pointer); isPtr || base.Addr != nil {
		a := fx.asAddr(base)
		na := *a
		// walk the path, dereferencing embedded pointers
		t := a.Ty
		cur := &na
		cur.Path = append([]int{}, a.Path...)
		for i, fi := range path {
			stt, ok := t.Underlying().(*types.Struct)
			if !ok {
				return e.errorf("field path through non-struct %s", t)
			}
			cur.Path = append(cur.Path, fi)
			t = stt.Field(fi).Type()
			cur.Ty = t
			if cur.Kind == ACell {
				cur.Kind = AField
			}
			if i < len(path)-1 {
				if _, isP := t.Underlying().(*types.Pointer); isP {
					pv := fx.loadQuiet(e.st, cur)
					nb := fx.asAddr(pv)
					cur = &Addr{Kind: nb.Kind, Base: nb.Base, Root: nb.Root, Ty: nb.Ty}
					t = nb.Ty
				}
			}
		}
		return fx.loadQuiet(e.st, cur)
	}
	// struct value
	if base.T == "" {
		return e.errorf("field %s of engine-level value", name)
	}
	t := base.T
	ty := base.Ty
	for _, fi := range path {
		if p, isP := ty.Underlying().(*types.Pointer); isP {
			a := &Addr{Kind: AField, Base: t, Root: p.Elem(), Ty: p.Elem()}
			a.Path = []int{fi}
			a.Ty = p.Elem().Underlying().(*types.Struct).Field(fi).Type()
			v := fx.loadQuiet(e.st, a)
			t, ty = v.T, v.Ty
			continue
		}
		t, ty = fx.project(t, ty, []int{fi})
	}
	return &Val{T: t, Ty: ty}
}

func (e *Env) pkgOf(t types.Type) *types.Package {
	tt := t
	if p, ok := tt.Underlying().(*types.Pointer); ok {
		tt = p.Elem()
	}
	if n, ok := tt.(*types.Named); ok && n.Obj().Pkg() != nil {
		return n.Obj().Pkg()
	}
	return e.pkg
}

func isNilVal(v *Val) bool {
	if v.Ty == nil {
		return false
	}
	b, ok := v.Ty.(*types.Basic)
	return ok && b.Kind() == types.UntypedNil
}

func (e *Env) binary(x *ast.BinaryExpr) *Val {
	fx := e.fx
	switch x.Op {
	case token.LAND:
		a, b := e.eval(x.X), e.eval(x.Y)
		return &Val{T: and(a.T, b.T), Ty: boolT}
	case token.LOR:
		a, b := e.eval(x.X), e.eval(x.Y)
		return &Val{T: or(a.T, b.T), Ty: boolT}
	case token.EQL:
		if containsQuant(x.X) || containsQuant(x.Y) {
			// boolean equivalence over a quantified side: both directions, each side with the polarity it has there
			a1, b1 := e.flip().eval(x.X), e.eval(x.Y)
			b2, a2 := e.flip().eval(x.Y), e.eval(x.X)
			return &Val{T: and(imp(a1.T, b1.T), imp(b2.T, a2.T)), Ty: boolT}
		}
	}
	a, b := e.eval(x.X), e.eval(x.Y)
	if a.T == "" || b.T == "" {
		if a.Bad != "" || b.Bad != "" {
			return e.errorf("operand not a term: %s %s", a.Bad, b.Bad)
		}
		ta, oka := fx.ptrTerm(e.st, a)
		tb, okb := fx.ptrTerm(e.st, b)
		if !oka || !okb {
			return e.errorf("operand not a term")
		}
		a = &Val{T: ta, Ty: a.Ty}
		b = &Val{T: tb, Ty: b.Ty}
	}
	switch x.Op {
	case token.EQL, token.NEQ:
		var t string
		switch {
		case isNilVal(a) && isNilVal(b):
			t = "true"
		case isNilVal(b):
			t = e.isNil(a)
		case isNilVal(a):
			t = e.isNil(b)
		default:
			t = "(= " + a.T + " " + b.T + ")"
		}
		if x.Op == token.NEQ {
			t = not(t)
		}
		return &Val{T: t, Ty: boolT}
	case token.LSS, token.LEQ, token.GTR, token.GEQ:
		if (a.Ty != nil && isString(a.Ty)) || (b.Ty != nil && isString(b.Ty)) {
			var t string
			switch x.Op {
			case token.LSS:
				t = fx.u.slt(a.T, b.T)
			case token.GTR:
				t = fx.u.slt(b.T, a.T)
			case token.LEQ:
				t = not(fx.u.slt(b.T, a.T))
			case token.GEQ:
				t = not(fx.u.slt(a.T, b.T))
			}
			return &Val{T: t, Ty: boolT}
		}
		op := map[token.Token]string{token.LSS: "<", token.LEQ: "<=", token.GTR: ">", token.GEQ: ">="}[x.Op]
		return &Val{T: "(" + op + " " + a.T + " " + b.T + ")", Ty: boolT}
	case token.ADD:
		if (a.Ty != nil && isString(a.Ty)) || (b.Ty != nil && isString(b.Ty)) {
			return &Val{T: fx.u.sconcat(a.T, b.T), Ty: strT}
		}
		fx.seed("(+ " + a.T + " " + b.T + ")")
		return &Val{T: "(+ " + a.T + " " + b.T + ")", Ty: pickTy(a, b)}
	case token.SUB:
		fx.seed("(- " + a.T + " " + b.T + ")")
		return &Val{T: "(- " + a.T + " " + b.T + ")", Ty: pickTy(a, b)}
	case token.MUL:
		return &Val{T: "(* " + a.T + " " + b.T + ")", Ty: pickTy(a, b)}
	case token.QUO:
		return &Val{T: "(div " + a.T + " " + b.T + ")", Ty: pickTy(a, b)}
	case token.REM:
		return &Val{T: "(mod " + a.T + " " + b.T + ")", Ty: pickTy(a, b)}
	}
	return e.errorf("binary %s", x.Op)
}

func pickTy(a, b *Val) types.Type {
	if a.Ty != nil {
		if bb, ok := a.Ty.(*types.Basic); !ok || bb.Info()&types.IsUntyped == 0 {
			return a.Ty
		}
	}
	if b.Ty != nil {
		return b.Ty
	}
	return a.Ty
}

func (e *Env) isNil(v *Val) string {
	if v.Ty == nil {
		return "(= " + v.T + " 0)"
	}
	switch v.Ty.Underlying().(type) {
	case *types.Slice:
		return "(= (sl_arr " + v.T + ") 0)"
	case *types.Interface:
		return "(= (if_tag " + v.T + ") 0)"
	}
	return "(= " + v.T + " 0)"
}

func (e *Env) index(base, idx *Val) *Val {
	fx := e.fx
	if base.Ty == nil {
		// ghost array: element type unknown to the type checker; interface-valued rows are recognised by use
		it := idx.T
		if it == "" {
			it, _ = fx.ptrTerm(e.st, idx)
		}
		return &Val{T: "(select " + base.T + " " + it + ")", Ty: e.ghostElemType(base.T)}
	}
	switch bt := base.Ty.Underlying().(type) {
	case *types.Slice:
		name, cs := elemComp(fx.u, bt.Elem())
		h := fx.heapGet(e.st, name, cs)
		return &Val{T: "(select (select " + h + " (sl_arr " + base.T + ")) (+ (sl_off " + base.T + ") " + idx.T + "))", Ty: bt.Elem()}
	case *types.Map:
		_, _, vn, vs := fx.mapComps(bt.Key(), bt.Elem())
		return &Val{T: "(select (select " + fx.heapGet(e.st, vn, vs) + " " + base.T + ") " + idx.T + ")", Ty: bt.Elem()}
	case *types.Array:
		return &Val{T: "(select " + base.T + " " + idx.T + ")", Ty: bt.Elem()}
	case *types.Basic:
		if fx.u.strings {
			return &Val{T: "(str.to_code (str.at " + base.T + " " + idx.T + "))", Ty: types.Typ[types.Byte]}
		}
		return &Val{T: "(sat " + base.T + " " + idx.T + ")", Ty: types.Typ[types.Byte]}
	}
	return e.errorf("index of %s", base.Ty)
}

// guardTrigger: for a quantified clause of the form imp(A, B) where A mentions
// the bound variable, A is a natural E-matching trigger (the guard is what the
// prover has in hand when it needs the fact).
func (e *Env) guardTrigger(ne *Env, body ast.Expr, bv string) string {
	if e.fx.ct == nil || !e.fx.ct.GuardTriggers {
		return "" // opt-in per contract file: guards as triggers help deep invariants and hurt some flat ones
	}
	c, ok := body.(*ast.CallExpr)
	if !ok || len(c.Args) != 2 {
		return ""
	}
	id, ok := c.Fun.(*ast.Ident)
	if !ok || id.Name != "imp" {
		return ""
	}
	n := len(*ne.errs)
	lines := len(ne.fx.lines)
	g := ne.eval(c.Args[0])
	if len(*ne.errs) > n {
		*ne.errs = (*ne.errs)[:n]
		return ""
	}
	_ = lines
	t := g.T
	// a conjunction: take the first conjunct mentioning the variable
	if strings.HasPrefix(t, "(and ") {
		for _, part := range flattenAnd(t) {
			if strings.Contains(part, bv) && strings.HasPrefix(part, "(") && !strings.HasPrefix(part, "(not ") && !strings.HasPrefix(part, "(=") {
				t = part
				break
			}
		}
	}
	if !strings.Contains(t, bv) || !strings.HasPrefix(t, "(select ") {
		return ""
	}
	return t
}

func (e *Env) quant(q string, args []ast.Expr) *Val {
	if len(args) != 4 {
		return e.errorf("%s(i, lo, hi, body)", q)
	}
	id, ok := args[0].(*ast.Ident)
	if !ok {
		return e.errorf("%s: first argument must be an identifier", q)
	}
	lo, hi := e.eval(args[1]), e.eval(args[2])
	e.fx.qn++
	bv := fmt.Sprintf("%s!%d", id.Name, e.fx.qn)
	ne := e.bind(id.Name, &Val{T: bv, Ty: intT})
	ne.bound = map[string]bool{}
	for k := range e.bound {
		ne.bound[k] = true
	}
	ne.bound[id.Name] = true
	fx := e.fx
	fx.u.uf("trg", "(declare-fun trg (Int) Bool)")
	fx.u.uf("trg1", "(declare-fun trg1 (Int) Bool)")
	fx.u.trgAxiom = true
	// Two trigger levels keep forall-exists chains finite: seeds, goal skolems and
	// top-level witnesses are trg; witnesses produced under a forall are only trg1;
	// quantifiers that produce witnesses fire on trg only, flat ones also on trg1.
	marker := "trg"
	switch {
	case q == "all" && e.goal: // to prove: the skolem constant may instantiate everything
		marker = "trg"
	case q == "all" && containsEx(args[3]): // assumed, produces witnesses: fires on first-level terms only
		marker = "trg"
	case q == "all" && e.firstLevel:
		marker = "trg"
	case q == "all": // assumed, flat: fires on witnesses too
		marker = "trg1"
	case q == "ex" && e.goal: // to prove: any known term may serve as witness
		marker = "trg1"
	case q == "ex" && e.underAll: // assumed under a forall: second-level witness
		marker = "trg1"
	}
	if q == "all" && !e.goal {
		ne.underAll = true
	}
	body := ne.eval(args[3])
	if !strings.Contains(lo.T, "!") {
		fx.seed(lo.T)
	}
	if !strings.Contains(hi.T, "!") {
		fx.seed("(- " + hi.T + " 1)")
	}
	extra := ""
	if q == "all" && e.goal {
		// the skolem constant's neighbours (j+1, j-1, ...) used as indices are instantiation points too
		seen := map[string]bool{}
		if fx.ct != nil && fx.ct.SeedNeighbours {
			// opt-in per contract: lemmas that shift indices (x[j] == old(y[j+1])) need the skolem's neighbours
			for _, m := range []string{"(+ " + bv + " 1)", "(- " + bv + " 1)"} {
				seen[m] = true
				extra += " (trg " + m + ")"
			}
		}
		for _, m := range regexp.MustCompile(`\((\+|-) `+regexp.QuoteMeta(bv)+` [^() ]+\)`).FindAllString(body.T, -1) {
			if !seen[m] {
				seen[m] = true
				extra += " (trg " + m + ")"
			}
		}
		// sums with a compound offset (base + j, j + base): the shifted index is an instantiation point too
		for _, m := range offsetTerms(body.T, bv) {
			if !seen[m] {
				seen[m] = true
				extra += " (trg " + m + ")"
			}
		}
	}
	rng := "(and (<= " + lo.T + " " + bv + ") (< " + bv + " " + hi.T + ") (" + marker + " " + bv + ")" + extra + ")"
	if q == "all" {
		return &Val{T: "(forall ((" + bv + " Int)) (! " + imp(rng, body.T) + " :pattern ((" + marker + " " + bv + ")) :qid q_" + sanitize(bv) + "))", Ty: boolT}
	}
	// written as a negated universal so that the trigger survives whichever polarity the solver sees
	return &Val{T: "(not (forall ((" + bv + " Int)) (! (not " + and(rng, body.T) + ") :pattern ((trg1 " + bv + ")) :qid q_" + sanitize(bv) + ")))", Ty: boolT}
}

// containsEx reports whether a clause expression contains an existential quantifier.
func containsEx(x ast.Expr) bool {
	found := false
	ast.Inspect(x, func(n ast.Node) bool {
		if c, ok := n.(*ast.CallExpr); ok {
			if id, ok := c.Fun.(*ast.Ident); ok && (id.Name == "ex" || id.Name == "exstr") {
				found = true
			}
		}
		return !found
	})
	return found
}

func (e *Env) call(x *ast.CallExpr) *Val {
	fx := e.fx
	name := ""
	switch f := x.Fun.(type) {
	case *ast.Ident:
		name = f.Name
	case *ast.SelectorExpr:
		if id, ok := f.X.(*ast.Ident); ok {
			name = id.Name + "." + f.Sel.Name
		}
	}
	argv := func(i int) *Val { return e.eval(x.Args[i]) }
	switch name {
	case "imp":
		a := e.flip().eval(x.Args[0])
		return &Val{T: imp(a.T, argv(1).T), Ty: boolT}
	case "iff":
		if containsQuant(x.Args[0]) || containsQuant(x.Args[1]) {
			// both directions, each side with the polarity it has there
			a1, b1 := e.flip().eval(x.Args[0]), e.eval(x.Args[1])
			b2, a2 := e.flip().eval(x.Args[1]), e.eval(x.Args[0])
			return &Val{T: and(imp(a1.T, b1.T), imp(b2.T, a2.T)), Ty: boolT}
		}
		return &Val{T: "(= " + argv(0).T + " " + argv(1).T + ")", Ty: boolT}
	case "ite":
		a, b := argv(1), argv(2)
		return &Val{T: ite(argv(0).T, a.T, b.T), Ty: pickTy(a, b)}
	case "all", "ex":
		return e.quant(name, x.Args)
	case "all0":
		// like all, but as an assumption it is instantiated at first-level terms only
		ne := *e
		ne.firstLevel = true
		return ne.quant("all", x.Args)
	case "allref":
		// allref(x, body): quantification over allocated references
		id := x.Args[0].(*ast.Ident)
		fx.qn++
		bv := fmt.Sprintf("%s!%d", id.Name, fx.qn)
		var bt types.Type
		bodyX := x.Args[1]
		if len(x.Args) == 3 {
			bt = e.typeExpr(x.Args[1])
			if bt == nil {
				return e.errorf("allref: unknown type")
			}
			bodyX = x.Args[2]
		}
		ne := e.bind(id.Name, &Val{T: bv, Ty: bt})
		ne.bound = map[string]bool{id.Name: true}
		for k := range e.bound {
			ne.bound[k] = true
		}
		body := ne.eval(bodyX)
		return &Val{T: "(forall ((" + bv + " Int)) " + body.T + ")", Ty: boolT}
	case "allif":
		id := x.Args[0].(*ast.Ident)
		fx.qn++
		bv := fmt.Sprintf("%s!%d", id.Name, fx.qn)
		ne := e.bind(id.Name, &Val{T: bv, Ty: types.NewInterfaceType(nil, nil)})
		ne.bound = map[string]bool{id.Name: true}
		for k := range e.bound {
			ne.bound[k] = true
		}
		body := ne.eval(x.Args[1])
		if trig := e.guardTrigger(ne, x.Args[1], bv); trig != "" {
			return &Val{T: "(forall ((" + bv + " If)) (! " + body.T + " :pattern (" + trig + ") :qid qif_" + sanitize(bv) + "))", Ty: boolT}
		}
		return &Val{T: "(forall ((" + bv + " If)) (! " + body.T + " :qid qif_" + sanitize(bv) + "))", Ty: boolT}
	case "allif2":
		// allif2(k, j, imp(guard, body)): one two-variable quantifier whose trigger is the pair of membership guards
		id1 := x.Args[0].(*ast.Ident)
		id2 := x.Args[1].(*ast.Ident)
		fx.qn++
		bv1 := fmt.Sprintf("%s!%d", id1.Name, fx.qn)
		fx.qn++
		bv2 := fmt.Sprintf("%s!%d", id2.Name, fx.qn)
		ift := types.NewInterfaceType(nil, nil)
		ne := e.bind(id1.Name, &Val{T: bv1, Ty: ift}).bind(id2.Name, &Val{T: bv2, Ty: ift})
		ne.bound = map[string]bool{id1.Name: true, id2.Name: true}
		for k := range e.bound {
			ne.bound[k] = true
		}
		body := ne.eval(x.Args[2])
		pat := ""
		if c, ok := x.Args[2].(*ast.CallExpr); ok && len(c.Args) == 2 {
			if g := ne.eval(c.Args[0]); strings.HasPrefix(g.T, "(and ") {
				var p1, p2 string
				for _, part := range flattenAnd(g.T) {
					if !strings.HasPrefix(part, "(select ") {
						continue
					}
					if p1 == "" && strings.Contains(part, bv1) && !strings.Contains(part, bv2) {
						p1 = part
					}
					if p2 == "" && strings.Contains(part, bv2) && !strings.Contains(part, bv1) {
						p2 = part
					}
				}
				if p1 != "" && p2 != "" {
					pat = " :pattern (" + p1 + " " + p2 + ")"
				}
			}
		}
		if pat != "" {
			return &Val{T: "(forall ((" + bv1 + " If) (" + bv2 + " If)) (! " + body.T + pat + " :qid qif2_" + sanitize(bv1) + "))", Ty: boolT}
		}
		return &Val{T: "(forall ((" + bv1 + " If) (" + bv2 + " If)) " + body.T + ")", Ty: boolT}
	case "unchanged":
		if e.old == nil {
			return e.errorf("unchanged() needs a pre-state")
		}
		var except []string
		for i := range x.Args {
			a := argv(i)
			t := a.T
			if t == "" {
				t, _ = fx.ptrTerm(e.st, a)
			}
			// an excepted pointer to a struct only exempts that struct's field heaps
			if a.Ty != nil {
				if p, ok := a.Ty.Underlying().(*types.Pointer); ok && isStruct(p.Elem()) {
					t = compName(p.Elem(), nil) + "$|" + t
				}
			}
			except = append(except, t)
		}
		return &Val{T: fx.unchangedTerm(e.st, e.old, except...), Ty: boolT}
	case "allstr", "exstr":
		id := x.Args[0].(*ast.Ident)
		fx.qn++
		bv := fmt.Sprintf("%s!%d", id.Name, fx.qn)
		ne := e.bind(id.Name, &Val{T: bv, Ty: strT})
		ne.bound = map[string]bool{id.Name: true}
		for k := range e.bound {
			ne.bound[k] = true
		}
		body := ne.eval(x.Args[1])
		q := "forall"
		if name == "exstr" {
			q = "exists"
		}
		if trig := e.guardTrigger(ne, x.Args[1], bv); trig != "" && q == "forall" {
			return &Val{T: "(forall ((" + bv + " " + fx.u.strSort() + ")) (! " + body.T + " :pattern (" + trig + ") :qid qstr_" + sanitize(bv) + "))", Ty: boolT}
		}
		return &Val{T: "(" + q + " ((" + bv + " " + fx.u.strSort() + ")) " + body.T + ")", Ty: boolT}
	case "old":
		if e.old == nil {
			return e.errorf("old() not available here")
		}
		return e.with(e.old).eval(x.Args[0])
	case "len":
		v := argv(0)
		if v.Ty == nil {
			return e.errorf("len of untyped")
		}
		switch vt := v.Ty.Underlying().(type) {
		case *types.Slice:
			if !strings.Contains(v.T, "!") && !fx.wfSeen[v.T] {
				// typing invariant of the heap: every slice value is well-formed
				fx.wfSeen[v.T] = true
				fx.emit("(assert (and (<= 0 (sl_len " + v.T + ")) (<= (sl_len " + v.T + ") (sl_cap " + v.T + ")) (<= 0 (sl_off " + v.T + "))))")
			}
			return &Val{T: "(sl_len " + v.T + ")", Ty: intT}
		case *types.Basic:
			return &Val{T: fx.u.slen(v.T), Ty: intT}
		case *types.Map:
			return &Val{T: "(select " + fx.heapGet(e.st, "ML$len", "(Array Int Int)") + " " + v.T + ")", Ty: intT}
		case *types.Array:
			return &Val{T: fmt.Sprint(vt.Len()), Ty: intT}
		}
		return e.errorf("len of %s", v.Ty)
	case "cap":
		return &Val{T: "(sl_cap " + argv(0).T + ")", Ty: intT}
	case "has":
		m, k := argv(0), argv(1)
		mt, ok := m.Ty.Underlying().(*types.Map)
		if !ok {
			return e.errorf("has() on non-map")
		}
		hn, hs, _, _ := fx.mapComps(mt.Key(), mt.Elem())
		return &Val{T: and("(not (= "+m.T+" 0))", "(select (select "+fx.heapGet(e.st, hn, hs)+" "+m.T+") "+k.T+")"), Ty: boolT}
	case "samemap":
		// samemap(m): the map m has exactly the keys and values it had in the pre-state (whole-row equality)
		if e.old == nil {
			return e.errorf("samemap() needs a pre-state")
		}
		m := argv(0)
		mt, ok := m.Ty.Underlying().(*types.Map)
		if !ok {
			return e.errorf("samemap() on non-map")
		}
		hn, hs, vn, vs := fx.mapComps(mt.Key(), mt.Elem())
		mo := e.with(e.old).eval(x.Args[0])
		return &Val{T: and("(= "+m.T+" "+mo.T+")",
			"(= (select "+fx.heapGet(e.st, hn, hs)+" "+m.T+") (select "+fx.heapGet(e.old, hn, hs)+" "+mo.T+"))",
			"(= (select "+fx.heapGet(e.st, vn, vs)+" "+m.T+") (select "+fx.heapGet(e.old, vn, vs)+" "+mo.T+"))"), Ty: boolT}
	case "typeis":
		v := argv(0)
		t := e.typeExpr(x.Args[1])
		if t == nil {
			return e.errorf("typeis: unknown type")
		}
		return &Val{T: fmt.Sprintf("(= (if_tag %s) %d)", v.T, fx.u.tagOf(t)), Ty: boolT}
	case "dyn":
		// dyn(x, T): payload of interface x viewed as T
		v := argv(0)
		t := e.typeExpr(x.Args[1])
		if t == nil {
			return e.errorf("dyn: unknown type")
		}
		return fx.unboxAs(e.st, v.T, t)
	case "errcode":
		return e.errcode(argv(0))
	case "fresh":
		v := argv(0)
		if e.old == nil {
			return e.errorf("fresh() needs a pre-state")
		}
		t, _ := fx.ptrTerm(e.st, v)
		if _, isSl := v.Ty.Underlying().(*types.Slice); isSl {
			t = "(sl_arr " + v.T + ")"
		}
		if _, isIf := v.Ty.Underlying().(*types.Interface); isIf {
			t = "(if_val " + v.T + ")" // the pointer an interface value holds
		}
		return &Val{T: "(> " + t + " " + e.old.Alloc + ")", Ty: boolT}
	case "allocated":
		v := argv(0)
		t, _ := fx.ptrTerm(e.st, v)
		if v.Ty != nil {
			if _, isSl := v.Ty.Underlying().(*types.Slice); isSl {
				t = "(sl_arr " + v.T + ")"
			}
			if _, isIf := v.Ty.Underlying().(*types.Interface); isIf {
				t = "(if_val " + v.T + ")"
			}
		}
		return &Val{T: "(and (< 0 " + t + ") (<= " + t + " " + e.st.Alloc + "))", Ty: boolT}
	case "iface":
		// iface(x, T): the interface value holding pointer x of dynamic type T
		v := argv(0)
		t := v.Ty
		if len(x.Args) > 1 {
			t = e.typeExpr(x.Args[1])
		}
		if t == nil {
			return e.errorf("iface: unknown type")
		}
		return fx.makeIface(e.st, &Val{T: v.T, Ty: t}, types.NewInterfaceType(nil, nil))
	case "nth":
		// nth(t, i): i-th component of a tuple-valued (pure) call
		v := argv(0)
		lit, ok := x.Args[1].(*ast.BasicLit)
		if !ok || v.Tup == nil {
			return e.errorf("nth(tuple, literal index)")
		}
		i, _ := strconv.Atoi(lit.Value)
		if i < 0 || i >= len(v.Tup) {
			return e.errorf("nth: index out of range")
		}
		return v.Tup[i]
	case "str":
		// str(b): the string conversion of a byte slice (the symbol the code gets for string(b))
		v := argv(0)
		sl, ok := v.Ty.Underlying().(*types.Slice)
		if !ok {
			return e.errorf("str() needs a []byte")
		}
		name, cs := elemComp(fx.u, sl.Elem())
		h := fx.heapGet(e.st, name, cs)
		n := fx.u.uf("bytes2str", "(declare-fun bytes2str ((Array Int Int) Int Int) "+fx.u.strSort()+")")
		return &Val{T: "(" + n + " (select " + h + " (sl_arr " + v.T + ")) (sl_off " + v.T + ") (sl_len " + v.T + "))", Ty: strT}
	case "smhas", "smval":
		// smhas(g, k) / smval(g, k): membership and value in the map[string]string a ghost (untyped pointer) denotes
		g, k := argv(0), argv(1)
		hn, hs, vn, vs := fx.mapComps(types.Typ[types.String], types.Typ[types.String])
		if name == "smhas" {
			return &Val{T: and("(not (= "+g.T+" 0))", "(select (select "+fx.heapGet(e.st, hn, hs)+" "+g.T+") "+k.T+")"), Ty: boolT}
		}
		return &Val{T: "(select (select " + fx.heapGet(e.st, vn, vs) + " " + g.T + ") " + k.T + ")", Ty: strT}
	case "sllen":
		// sllen(g): length of a slice-sorted ghost value
		return &Val{T: "(sl_len " + argv(0).T + ")", Ty: intT}
	case "isfn":
		// isfn(x, T, "pkg.(*Recv).name$1"): the interface value x holds, as a T, exactly that function (a closure of it)
		v := argv(0)
		t := e.typeExpr(x.Args[1])
		lit, ok := x.Args[2].(*ast.BasicLit)
		if t == nil || !ok {
			return e.errorf("isfn(x, FuncType, \"function key\")")
		}
		key, _ := strconv.Unquote(lit.Value)
		f := fx.eng.funcs[key]
		if f == nil {
			return e.errorf("isfn: no function %s", key)
		}
		iv := fx.makeIface(e.st, &Val{T: fx.funcRef(f), Ty: t}, types.NewInterfaceType(nil, nil))
		return &Val{T: "(= " + v.T + " " + iv.T + ")", Ty: boolT}
	case "arrslice":
		// arrslice(p): the slice p[:] of the heap array p points to (the view code gets by slicing it)
		v := argv(0)
		pt, ok := v.Ty.Underlying().(*types.Pointer)
		if !ok {
			return e.errorf("arrslice: not a pointer to an array")
		}
		at, ok := pt.Elem().Underlying().(*types.Array)
		if !ok {
			return e.errorf("arrslice: not a pointer to an array")
		}
		ref, ok := fx.ptrTerm(e.st, v)
		if !ok {
			return e.errorf("arrslice: local array")
		}
		return &Val{T: fmt.Sprintf("(mk_sl %s 0 %d %d)", ref, at.Len(), at.Len()), Ty: types.NewSlice(at.Elem())}
	case "slstr":
		// slstr(g, i): i-th element of a []string-sorted ghost value, read from the current heap
		v, i := argv(0), argv(1)
		name, cs := elemComp(fx.u, types.Typ[types.String])
		h := fx.heapGet(e.st, name, cs)
		return &Val{T: "(select (select " + h + " (sl_arr " + v.T + ")) (+ (sl_off " + v.T + ") " + i.T + "))", Ty: strT}
	case "slbyte":
		// slbyte(g, i): i-th byte of a []byte-sorted ghost value, read from the current heap
		v, i := argv(0), argv(1)
		name, cs := elemComp(fx.u, types.Typ[types.Byte])
		h := fx.heapGet(e.st, name, cs)
		return &Val{T: "(select (select " + h + " (sl_arr " + v.T + ")) (+ (sl_off " + v.T + ") " + i.T + "))", Ty: types.Typ[types.Byte]}
	case "mark":
		// mark(t): no logical content (the trigger predicates are true everywhere in the intended
		// interpretation); on the assumed side it makes the index term t an instantiation point
		v := argv(0)
		if e.goal {
			return &Val{T: "true", Ty: boolT}
		}
		fx.u.uf("trg1", "(declare-fun trg1 (Int) Bool)")
		return &Val{T: "(trg1 " + v.T + ")", Ty: boolT}
	case "visited":
		// visited(k) / visited(n, k): key k was already delivered by the (n-th) map range loop
		n := 1
		karg := 0
		if len(x.Args) == 2 {
			if lit, ok := x.Args[0].(*ast.BasicLit); ok {
				n, _ = strconv.Atoi(lit.Value)
			}
			karg = 1
		}
		k := argv(karg)
		name := fmt.Sprintf("RV$%d", n)
		cs, ok := fx.compSort[name]
		if !ok {
			return e.errorf("visited: no map range loop %d", n)
		}
		return &Val{T: "(select " + fx.heapGet(e.st, name, cs) + " " + k.T + ")", Ty: boolT}
	case "pureres":
		// pureres("Owner.funcVar", i, args...): i-th result of a pure function-valued variable (funcfield ... pure)
		lit, ok := x.Args[0].(*ast.BasicLit)
		if !ok {
			return e.errorf("pureres: first argument must be a string literal")
		}
		key, _ := strconv.Unquote(lit.Value)
		idxLit, ok := x.Args[1].(*ast.BasicLit)
		if !ok {
			return e.errorf("pureres: second argument must be an integer literal")
		}
		ri, _ := strconv.Atoi(idxLit.Value)
		ct := fx.eng.specs.Contracts["funcfield:"+key]
		if ct == nil || !ct.Pure {
			return e.errorf("pureres: no pure funcfield contract %s", key)
		}
		sig := fx.eng.funcFieldSig(key)
		if sig == nil {
			return e.errorf("pureres: cannot find the variable %s", key)
		}
		var args []*Val
		for i := 2; i < len(x.Args); i++ {
			args = append(args, argv(i))
		}
		var rt types.Type = sig.Results()
		if sig.Results().Len() == 1 {
			rt = sig.Results().At(0).Type()
		}
		fx.pureInline = true
		v := fx.pureCall(e.st, "pc$"+sanitize(key), args, rt)
		fx.pureInline = false
		if len(v.Tup) > ri {
			return v.Tup[ri]
		}
		return v
	case "key_lt":
		// strict order of skiplist keys: the order of the strings they carry
		a, b := argv(0), argv(1)
		sa := fx.unboxAs(e.st, a.T, strT)
		sb := fx.unboxAs(e.st, b.T, strT)
		return &Val{T: fx.u.slt(sa.T, sb.T), Ty: boolT}
	case "upd":
		a, k, v := argv(0), argv(1), argv(2)
		kt, vt := k.T, v.T
		if kt == "" {
			kt, _ = fx.ptrTerm(e.st, k)
		}
		if vt == "" {
			vt, _ = fx.ptrTerm(e.st, v)
		}
		return &Val{T: "(store " + a.T + " " + kt + " " + vt + ")", Ty: a.Ty}
	case "nokeys":
		return &Val{T: "((as const (Array If Bool)) false)"}
	case "min":
		a, b := argv(0), argv(1)
		return &Val{T: "(ite (<= " + a.T + " " + b.T + ") " + a.T + " " + b.T + ")", Ty: pickTy(a, b)}
	case "max":
		a, b := argv(0), argv(1)
		return &Val{T: "(ite (>= " + a.T + " " + b.T + ") " + a.T + " " + b.T + ")", Ty: pickTy(a, b)}
	case "strings.HasPrefix":
		a, b := argv(0), argv(1)
		return &Val{T: fx.hasPrefix(a.T, b.T), Ty: boolT}
	case "strings.HasSuffix":
		a, b := argv(0), argv(1)
		return &Val{T: fx.hasSuffix(a.T, b.T), Ty: boolT}
	case "strings.Contains":
		a, b := argv(0), argv(1)
		return &Val{T: fx.strContains(a.T, b.T), Ty: boolT}
	case "strings.Index":
		a, b := argv(0), argv(1)
		return &Val{T: fx.strIndex(a.T, b.T), Ty: intT}
	case "prefixof":
		a, b := argv(0), argv(1)
		return &Val{T: fx.hasPrefix(b.T, a.T), Ty: boolT}
	case "suffixof":
		a, b := argv(0), argv(1)
		return &Val{T: fx.hasSuffix(b.T, a.T), Ty: boolT}
	case "contains":
		a, b := argv(0), argv(1)
		return &Val{T: fx.strContains(a.T, b.T), Ty: boolT}
	case "indexof":
		a, b := argv(0), argv(1)
		return &Val{T: fx.strIndex(a.T, b.T), Ty: intT}
	case "substr":
		return &Val{T: fx.u.ssub(argv(0).T, argv(1).T, argv(2).T), Ty: strT}
	case "inre":
		// inre(s, "regex"): membership in a Go regular expression
		s := argv(0)
		lit, ok := x.Args[1].(*ast.BasicLit)
		if !ok {
			return e.errorf("inre needs a literal pattern")
		}
		pat, _ := strconv.Unquote(lit.Value)
		return &Val{T: fx.regexMatch(pat, s.T), Ty: boolT}
	}
	if sym, ok := e.recs[name]; ok && len(x.Args) == 1 {
		return &Val{T: "(" + sym + " " + argv(0).T + ")", Ty: intT}
	}
	// predicates defined with `pred` (one global namespace; a package qualifier is accepted and ignored)
	predName := name
	if _, ok := fx.eng.specs.Preds[predName]; !ok {
		if i := strings.LastIndex(predName, "."); i >= 0 {
			predName = predName[i+1:]
		}
	}
	if pr, ok := fx.eng.specs.Preds[predName]; ok && e.depth < 20 {
		if len(pr.Params) != len(x.Args) {
			return e.errorf("pred %s expects %d arguments", name, len(pr.Params))
		}
		ne := *e
		ne.depth++
		ne.vars = map[string]*Val{}
		for k, v := range e.vars {
			ne.vars[k] = v
		}
		ne.bound = map[string]bool{}
		for k := range e.bound {
			ne.bound[k] = true
		}
		for i, pn := range pr.Params {
			ne.vars[pn] = argv(i)
			ne.bound[pn] = true
		}
		ne.lets = nil
		return ne.eval(pr.Body)
	}
	// conversions: T(x)
	if len(x.Args) == 1 {
		if t := e.typeExpr(x.Fun); t != nil {
			v := argv(0)
			return &Val{T: v.T, Ty: t}
		}
	}
	// ghost observers
	if g, ok := fx.eng.specs.Ghosts[name]; ok {
		t := fx.heapGet(e.st, "G$"+g.Name, g.Sort)
		for i := range x.Args {
			a := argv(i)
			at := a.T
			if at == "" {
				at, _ = fx.ptrTerm(e.st, a)
			}
			t = "(select " + t + " " + at + ")"
		}
		dims := 0
		for srt := g.Sort; strings.HasPrefix(srt, "(Array "); dims++ {
			_, srt = arraySorts(srt)
		}
		if len(x.Args) < dims {
			return &Val{T: t, Ty: nil}
		}
		gt := fx.eng.ghostType(g)
		if gt == intT {
			fx.seed(t)
		}
		return &Val{T: t, Ty: gt}
	}
	// uninterpreted spec symbols declared with `uf`
	ufName := name
	if i := strings.LastIndex(ufName, "."); i >= 0 {
		ufName = ufName[i+1:]
	}
	if u, ok := fx.eng.specUFs[ufName]; ok {
		parts := []string{u.name}
		for i := range x.Args {
			parts = append(parts, argv(i).T)
		}
		fx.u.uf(u.name, u.decl(fx.u))
		return &Val{T: "(" + strings.Join(parts, " ") + ")", Ty: u.result}
	}
	// pure library methods on a value (query.Get("marker")): the same uninterpreted symbol the code gets
	if sel, ok := x.Fun.(*ast.SelectorExpr); ok {
		isPkg := false
		if id, ok := sel.X.(*ast.Ident); ok && e.importedPkg(id.Name) != nil && !e.bound[id.Name] {
			if _, shadow := e.vars[id.Name]; !shadow {
				isPkg = true
			}
		}
		if !isPkg {
			nErr := len(*e.errs)
			recv := e.eval(sel.X)
			if len(*e.errs) == nErr && recv != nil && recv.Ty != nil {
				t := types.Unalias(recv.Ty)
				ptr := ""
				if p, ok := t.(*types.Pointer); ok {
					t = types.Unalias(p.Elem())
					ptr = "*"
				}
				if n, ok := t.(*types.Named); ok && n.Obj().Pkg() != nil {
					key := "(" + ptr + n.Obj().Pkg().Name() + "." + n.Obj().Name() + ")." + sel.Sel.Name
					if _, isIface := n.Underlying().(*types.Interface); isIface && ptr == "" {
						// a method of an interface whose contract is declared pure: the symbol the code gets
						ik := n.Obj().Pkg().Name() + "." + n.Obj().Name() + "." + sel.Sel.Name
						if ict := fx.eng.specs.Contracts["iface:"+ik]; ict != nil && ict.Pure {
							if m := types.NewMethodSet(recv.Ty).Lookup(n.Obj().Pkg(), sel.Sel.Name); m != nil {
								args := []*Val{recv}
								for i := range x.Args {
									args = append(args, argv(i))
								}
								res := m.Type().(*types.Signature).Results()
								var rt types.Type = res
								if res.Len() == 1 {
									rt = res.At(0).Type()
								}
								fx.pureInline = true
								v := fx.pureCall(e.st, "pc$"+sanitize(ik), args, rt)
								fx.pureInline = false
								return v
							}
						}
					}
					libPure := false
					if lc := fx.eng.specs.Contracts["lib:"+key]; lc != nil && lc.Pure {
						libPure = true
					}
					if pureFuncs[key] || libPure {
						if m := types.NewMethodSet(recv.Ty).Lookup(n.Obj().Pkg(), sel.Sel.Name); m != nil {
							args := []*Val{recv}
							for i := range x.Args {
								args = append(args, argv(i))
							}
							res := m.Type().(*types.Signature).Results()
							var rt types.Type = res
							if res.Len() == 1 {
								rt = res.At(0).Type()
							}
							sym := "pf$" + sanitize(key)
							if libPure {
								sym = "pc$" + sanitize(key)
							}
							fx.pureInline = true
							v := fx.pureCall(e.st, sym, args, rt)
							fx.pureInline = false
							return v
						}
					}
				}
			} else {
				*e.errs = (*e.errs)[:nErr]
			}
		}
	}
	if name == "path.Join" || name == "filepath.Join" {
		// the symbol the code gets for a Join of a fixed number of operands (plainVariadic)
		var args []*Val
		for i := range x.Args {
			args = append(args, argv(i))
		}
		fx.pureInline = true
		v := fx.pureCall(e.st, "pf$"+sanitize(name)+"$v", args, types.Typ[types.String])
		fx.pureInline = false
		return v
	}
	if name == "fmt.Sprintf" && len(x.Args) >= 1 {
		// the symbol the code gets for a Sprintf whose operands are plain basic values (plainVariadic)
		args := []*Val{argv(0)}
		for i := 1; i < len(x.Args); i++ {
			v := argv(i)
			if v == nil || v.Ty == nil {
				return e.errorf("fmt.Sprintf: untyped operand")
			}
			args = append(args, v)
		}
		fx.pureInline = true
		v := fx.pureCall(e.st, "pf$fmt_Sprintf$v", args, types.Typ[types.String])
		fx.pureInline = false
		return v
	}
	// pure library functions: the same uninterpreted symbol the code gets
	if lc := fx.eng.specs.Contracts["lib:"+name]; pureFuncs[name] || (lc != nil && lc.Pure) {
		if i := strings.Index(name, "."); i > 0 {
			if p := e.importedPkg(name[:i]); p != nil {
				if f, ok := p.Scope().Lookup(name[i+1:]).(*types.Func); ok {
					var args []*Val
					for i := range x.Args {
						args = append(args, argv(i))
					}
					res := f.Type().(*types.Signature).Results()
					var rt types.Type = res
					if res.Len() == 1 {
						rt = res.At(0).Type()
					}
					sym := "pf$" + sanitize(name)
					if lc := fx.eng.specs.Contracts["lib:"+name]; lc != nil && lc.Pure {
						sym = "pc$" + sanitize(name) // the symbol the code gets through the pure library contract
					}
					fx.pureInline = true
					v := fx.pureCall(e.st, sym, args, rt)
					fx.pureInline = false
					return v
				}
			}
		}
	}
	// spec functions (pure Go in the contracts file)
	if sf := fx.eng.specFunc(e.pkg, name); sf != nil {
		var args []*Val
		for i := range x.Args {
			args = append(args, argv(i))
		}
		return fx.inlineSpec(sf, args, e.st)
	}
	return e.errorf("unknown function %s in clause", name)
}

func (e *Env) typeExpr(x ast.Expr) types.Type {
	switch t := x.(type) {
	case *ast.Ident:
		if b := types.Universe.Lookup(t.Name); b != nil {
			if tn, ok := b.(*types.TypeName); ok {
				return tn.Type()
			}
		}
		if e.pkg != nil {
			if obj, ok := e.pkg.Scope().Lookup(t.Name).(*types.TypeName); ok {
				return obj.Type()
			}
		}
	case *ast.StarExpr:
		if in := e.typeExpr(t.X); in != nil {
			return types.NewPointer(in)
		}
	case *ast.SelectorExpr:
		if id, ok := t.X.(*ast.Ident); ok {
			if p := e.importedPkg(id.Name); p != nil {
				if obj, ok := p.Scope().Lookup(t.Sel.Name).(*types.TypeName); ok {
					return obj.Type()
				}
			}
		}
	case *ast.ArrayType:
		if t.Len == nil {
			if in := e.typeExpr(t.Elt); in != nil {
				return types.NewSlice(in)
			}
		}
	case *ast.ParenExpr:
		return e.typeExpr(t.X)
	}
	return nil
}

// errcode extracts the S3 error code carried by an error value: the value
// itself for ErrorCode, ErrInternal for InternalErrorCode, and the Code field
// for every response struct that embeds ErrorResponse.
func (e *Env) errcode(v *Val) *Val {
	fx := e.fx
	root := fx.eng.rootPkg()
	if root == nil {
		return e.errorf("errcode: root package not loaded")
	}
	lookup := func(n string) types.Type {
		if o := root.Scope().Lookup(n); o != nil {
			return o.Type()
		}
		return nil
	}
	ec := lookup("ErrorCode")
	er := lookup("ErrorResponse")
	if ec == nil || er == nil {
		return e.errorf("errcode: ErrorCode/ErrorResponse not found")
	}
	erS := er.Underlying().(*types.Struct)
	codeIdx := -1
	for i := 0; i < erS.NumFields(); i++ {
		if erS.Field(i).Name() == "Code" {
			codeIdx = i
		}
	}
	t := fx.u.strLit("")
	names := root.Scope().Names()
	for _, n := range names {
		tn, ok := root.Scope().Lookup(n).(*types.TypeName)
		if !ok {
			continue
		}
		st, ok := tn.Type().Underlying().(*types.Struct)
		if !ok {
			continue
		}
		var path []int
		if types.Identical(tn.Type(), er) {
			path = []int{codeIdx}
		} else if st.NumFields() > 0 && st.Field(0).Embedded() && types.Identical(st.Field(0).Type(), er) {
			path = []int{0, codeIdx}
		} else {
			continue
		}
		a := &Addr{Kind: AField, Base: "(if_val " + v.T + ")", Root: tn.Type(), Path: path, Ty: ec}
		t = ite(fmt.Sprintf("(= (if_tag %s) %d)", v.T, fx.u.tagOf(types.NewPointer(tn.Type()))), fx.loadQuiet(e.st, a).T, t)
	}
	if ic := lookup("InternalErrorCode"); ic != nil {
		t = ite(fmt.Sprintf("(= (if_tag %s) %d)", v.T, fx.u.tagOf(ic)), fx.u.strLit("InternalError"), t)
	}
	t = ite(fmt.Sprintf("(= (if_tag %s) %d)", v.T, fx.u.tagOf(ec)), fx.unboxAs(e.st, v.T, ec).T, t)
	return &Val{T: t, Ty: ec}
}

// unchangedTerm: every non-ghost heap component has, at every reference that
// was allocated in the pre-state, the value it had in the pre-state.
func (fx *FuncCtx) unchangedTerm(now, pre *State, except ...string) string {
	if now.Base != pre.Base {
		return "false"
	}
	var cs []string
	names := make([]string, 0, len(now.Heap))
	for c := range now.Heap {
		names = append(names, c)
	}
	sort.Strings(names)
	for _, c := range names {
		if strings.HasPrefix(c, "G$rd_pos") || strings.HasPrefix(c, "G$it_") || strings.HasPrefix(c, "G$put_") || strings.HasPrefix(c, "G$get_") || strings.HasPrefix(c, "G$part_") || strings.HasPrefix(c, "G$lp_") || strings.HasPrefix(c, "G$dm_") || (strings.HasPrefix(c, "G$br_src") || logGhost(c)) || strings.HasPrefix(c, "G$hdr_") || strings.HasPrefix(c, "RV$") {
			continue // stream cursors, iterators, the ghost call log and iteration bookkeeping are not stored state
		}
		t := now.Heap[c]
		was, ok := pre.Heap[c]
		if !ok {
			was = fx.baseLookup(pre.Base, c)
		}
		if t == was {
			continue
		}
		ks, _ := arraySorts(fx.compSort[c])
		switch ks {
		case "":
			cs = append(cs, "(= "+t+" "+was+")")
		case "Int":
			conds := []string{"(< 0 x!u)", "(<= x!u " + pre.Alloc + ")"}
			for _, ex := range except {
				if i := strings.Index(ex, "|"); i >= 0 {
					if !strings.HasPrefix(c, ex[:i]) {
						continue
					}
					ex = ex[i+1:]
				}
				conds = append(conds, "(not (= x!u "+ex+"))")
			}
			cs = append(cs, "(forall ((x!u Int)) (=> "+and(conds...)+" (= (select "+t+" x!u) (select "+was+" x!u))))")
		default:
			cs = append(cs, "(= "+t+" "+was+")")
		}
	}
	return and(cs...)
}

// defineRecFuns emits (define-fun-rec ...) for the integer recursive spec
// functions of a contract, with their bodies evaluated in the given environment
// (entry state of the function, or pre-state of a call).
func (fx *FuncCtx) defineRecFuns(ct *Contract, env *Env) map[string]string {
	if len(ct.RecFuns) == 0 {
		return nil
	}
	recs := map[string]string{}
	for _, rf := range ct.RecFuns {
		recs[rf.Name] = fx.fresh("rf_" + rf.Name)
	}
	for _, rf := range ct.RecFuns {
		sym := recs[rf.Name]
		ne := *env
		ne.recs = recs
		ne.vars = map[string]*Val{}
		for k, v := range env.vars {
			ne.vars[k] = v
		}
		param := rf.Params[0]
		bv := param + "!rf"
		ne.vars[param] = &Val{T: bv, Ty: intT}
		ne.bound = map[string]bool{param: true}
		ne.fn = nil
		body := ne.eval(rf.Body)
		// an uninterpreted function with its defining equation instantiated only at
		// seeded index terms (trg): no matching loops, no recursive-definition engine
		fx.u.uf("trg", "(declare-fun trg (Int) Bool)")
		fx.emit(fmt.Sprintf("(declare-fun %s (Int) Int)", sym))
		fx.emit(fmt.Sprintf("(assert (forall ((%s Int)) (! (=> (trg %s) (= (%s %s) %s)) :pattern ((trg %s)))))", bv, bv, sym, bv, body.T, bv))
	}
	return recs
}

// ghostElemType recovers the Go-level type of a ghost array element from the
// component it was selected from (If-valued rows are interface values).
func (e *Env) ghostElemType(arrTerm string) types.Type {
	for name, g := range e.fx.eng.specs.Ghosts {
		if strings.Contains(arrTerm, "G$"+name) || true {
			_ = g
		}
	}
	// find the ghost whose component term prefixes arrTerm
	best := ""
	var bg *GhostDecl
	for name, g := range e.fx.eng.specs.Ghosts {
		if strings.Contains(arrTerm, name) && len(name) > len(best) {
			best, bg = name, g
		}
	}
	if bg == nil {
		return nil
	}
	srt := bg.Sort
	for strings.HasPrefix(srt, "(Array ") {
		_, srt = arraySorts(srt)
	}
	switch srt {
	case "Int":
		return intT
	case "Bool":
		return boolT
	case "If":
		return types.NewInterfaceType(nil, nil)
	case "Str", "String":
		return strT
	}
	return nil
}

// flattenAnd returns the conjuncts of a (possibly nested) conjunction.
func flattenAnd(t string) []string {
	if !strings.HasPrefix(t, "(and ") {
		return []string{t}
	}
	var out []string
	for _, p := range splitSexps(t[5 : len(t)-1]) {
		out = append(out, flattenAnd(p)...)
	}
	return out
}

// offsetTerms finds the subterms (+ a b) / (- a b) of t that have the variable bv as a direct
// operand and no other bound variable (names containing '!') inside.
func offsetTerms(t, bv string) []string {
	var out []string
	for i := 0; i+3 < len(t); i++ {
		if t[i] != '(' || (t[i+1] != '+' && t[i+1] != '-') || t[i+2] != ' ' {
			continue
		}
		// find the matching close
		depth, j := 0, i
		for ; j < len(t); j++ {
			if t[j] == '(' {
				depth++
			} else if t[j] == ')' {
				depth--
				if depth == 0 {
					break
				}
			}
		}
		if j >= len(t) {
			continue
		}
		term := t[i : j+1]
		// split direct operands
		var ops []string
		d, start := 0, 3
		for k := 3; k < len(term)-1; k++ {
			switch term[k] {
			case '(':
				d++
			case ')':
				d--
			case ' ':
				if d == 0 {
					ops = append(ops, term[start:k])
					start = k + 1
				}
			}
		}
		ops = append(ops, term[start:len(term)-1])
		if len(ops) != 2 {
			continue
		}
		direct, clean := false, true
		for _, o := range ops {
			if o == bv {
				direct = true
			} else if strings.Contains(o, "!") {
				clean = false
			}
		}
		if direct && clean && len(term) < 400 {
			out = append(out, term)
		}
	}
	return out
}
