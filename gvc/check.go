package main

import (
	"encoding/json"
	"fmt"
	"os"
	"path/filepath"
	"regexp"
	"runtime"
	"sort"
	"strings"
	"time"
)

type FuncReport struct {
	Key        string
	Fx         *FuncCtx
	Results    []*Result
	Rejected   string
	Notes      []string
	ClauseErrs []string
	Missing    bool // contract target not found
	WallMs     int64
}

type KnownFindings struct {
	Findings []struct {
		Property   string `json:"property"`
		Obligation string `json:"obligation"` // glob over obligation names
		What       string `json:"what"`
		Defect     string `json:"defect,omitempty"`
	} `json:"findings"`
	Fixed []string `json:"fixed"`
}

func loadKnown(path string) *KnownFindings {
	k := &KnownFindings{}
	data, err := os.ReadFile(path)
	if err != nil {
		return k
	}
	if err := json.Unmarshal(data, k); err != nil {
		fmt.Fprintln(os.Stderr, "known_findings.json:", err)
	}
	return k
}

func globMatch(pat, s string) bool {
	re := "^" + strings.ReplaceAll(regexp.QuoteMeta(pat), `\*`, ".*") + "$"
	ok, _ := regexp.MatchString(re, s)
	return ok
}

// newFuncCtx prepares the verification of one function.
func (e *Engine) newFuncCtx(key string, ct *Contract) *FuncCtx {
	fn := e.funcs[key]
	fx := &FuncCtx{eng: e, fn: fn, ct: ct, compSort: map[string]string{}, trusted: map[string]bool{}, fnKey: key}
	return fx
}

// verifyFunc runs the VC generator and the solvers on one function under contract.
func (e *Engine) verifyFunc(key string, ct *Contract, workRoot string, timeoutMs int, sem chan struct{}) *FuncReport {
	start := time.Now()
	rep := &FuncReport{Key: key}
	fn := e.funcs[key]
	if fn == nil {
		rep.Missing = true
		return rep
	}
	fx := e.newFuncCtx(key, ct)
	rep.Fx = fx
	func() {
		defer func() {
			if r := recover(); r != nil {
				buf := make([]byte, 4096)
				n := runtime.Stack(buf, false)
				fx.rejected = fmt.Sprintf("engine error: %v\n%s", r, buf[:n])
			}
		}()
		fx.run()
	}()
	rep.Rejected = fx.rejected
	rep.Notes = fx.notes
	rep.ClauseErrs = fx.clauseErrs
	if fx.rejected != "" {
		return rep
	}
	// loops named in the contract must exist
	for n := range ct.Loops {
		found := false
		for _, li := range fx.loops {
			if li.ordinal == n {
				found = true
			}
		}
		if !found {
			rep.ClauseErrs = append(rep.ClauseErrs, fmt.Sprintf("contract names loop %d which does not exist in %s", n, key))
		}
	}
	var body strings.Builder
	for _, l := range fx.lines {
		body.WriteString(l)
	}
	for _, ob := range fx.obls {
		body.WriteString(ob.Goal)
		body.WriteString(ob.Reach)
	}
	fx.u.bodyText = body.String()
	fx.preludeText = fx.u.prelude()
	genMs := time.Since(start).Milliseconds()
	defer func() {
		if os.Getenv("GVC_TIMING") != "" {
			fmt.Fprintf(os.Stderr, "timing %s: gen %d ms, total %d ms, %d obligations, %d lines\n", key, genMs, time.Since(start).Milliseconds(), len(fx.obls), len(fx.lines))
		}
	}()
	dir := filepath.Join(workRoot, sanitize(key))
	os.MkdirAll(dir, 0o755)
	probes := fx.modelProbes()
	fx.shortTimeout = func(name string) bool {
		// an obligation listed as a known finding is expected to stay undischarged: do not wait long for it
		if e.known == nil {
			return false
		}
		for _, kf := range e.known.Findings {
			if globMatch(kf.Obligation, name) {
				return true
			}
		}
		return false
	}
	rep.Results = dischargeAll(dir, fx, probes, timeoutMs, 16, sem)
	for _, r := range rep.Results {
		if (r.Status == "discharged" || r.Status == "covered") && os.Getenv("GVC_KEEPALL") == "" {
			os.Remove(r.Query)
		}
	}
	rep.WallMs = time.Since(start).Milliseconds()
	return rep
}

// modelProbes lists terms whose values make a counterexample readable/replayable.
func (fx *FuncCtx) modelProbes() []string {
	var ps []string
	seen := map[string]bool{}
	add := func(t string) {
		if !seen[t] {
			seen[t] = true
			ps = append(ps, t)
		}
	}
	names := make([]string, 0, len(fx.params))
	for n := range fx.params {
		names = append(names, n)
	}
	sort.Strings(names)
	for _, n := range names {
		v := fx.params[n]
		if v == nil || v.T == "" {
			continue
		}
		add(v.T)
		fx.probeFields(v, add)
	}
	return ps
}

// ---- property check ----

type checkOpts struct {
	prop     string
	tier     string
	repo     string
	verifDir string
	seed     int64
	only     string // restrict to one function key (debugging)
	verbose  bool
	keep     bool
	evidenceDir string
}

type obRecord struct {
	Name   string `json:"name"`
	Status string `json:"status"`
	Solver string `json:"solver,omitempty"`
	Ms     int64  `json:"ms"`
}

func runCheck(o checkOpts) int {
	start := time.Now()
	eng, err := loadEngine(o.repo, o.verifDir)
	evDir := filepath.Join(o.verifDir, "evidence")
	if o.evidenceDir != "" {
		evDir = o.evidenceDir
	}
	evidencePath := filepath.Join(evDir, o.prop+".json")
	os.MkdirAll(filepath.Dir(evidencePath), 0o755)
	replayDir := filepath.Join(evDir, "replays", o.prop)
	os.RemoveAll(replayDir)
	os.MkdirAll(replayDir, 0o755)
	if err != nil {
		// the tree does not load: nothing can be claimed
		p := filepath.Join(replayDir, "load-error.txt")
		os.WriteFile(p, []byte("gvc could not load /repo with -tags=verif:\n"+err.Error()+"\n"), 0o644)
		fmt.Printf("VIOLATION property=%s replay=%s no-failing-input-found\n", o.prop, p)
		writeEvidence(evidencePath, o, nil, nil, nil, time.Since(start), 1, []string{"load error: " + err.Error()})
		return 1
	}
	for _, se := range eng.specs.Errors {
		fmt.Println("SPEC-ERROR:", se)
	}
	known := loadKnown(filepath.Join(o.verifDir, "known_findings.json"))
	eng.known = known
	timeoutMs := 15000
	if o.tier == "thorough" {
		timeoutMs = 60000
	}
	// select functions
	var keys []string
	for _, k := range eng.specs.Order {
		ct := eng.specs.Contracts[k]
		if ct.Kind != "func" || ct.NoBody {
			continue
		}
		if o.only != "" && !strings.Contains(k, o.only) {
			continue
		}
		if o.prop == "ALL" || ct.propSet()[o.prop] {
			keys = append(keys, k)
		}
	}
	workRoot := filepath.Join(o.verifDir, ".work", o.prop)
	if o.evidenceDir != "" {
		workRoot = filepath.Join(o.evidenceDir, ".work", o.prop)
	}
	os.RemoveAll(workRoot)
	os.MkdirAll(workRoot, 0o755)
	sem := make(chan struct{}, runtime.NumCPU())
	reports := make([]*FuncReport, len(keys))
	done := make(chan int, len(keys))
	for i, k := range keys {
		i, k := i, k
		go func() {
			reports[i] = eng.verifyFunc(k, eng.specs.Contracts[k], workRoot, timeoutMs, sem)
			done <- i
		}()
	}
	for range keys {
		<-done
	}
	if os.Getenv("GVC_TIMING") != "" {
		fmt.Fprintf(os.Stderr, "timing phase verify done at %.1fs\n", time.Since(start).Seconds())
	}
	// second chance for undecided obligations: one at a time, with a longer
	// timeout, when the machine is no longer saturated by the parallel phase
	retried := 0
	for _, rep := range reports {
		if rep == nil || rep.Fx == nil || rep.Rejected != "" {
			continue
		}
		for i, r := range rep.Results {
			isKnown := false
			for _, kf := range known.Findings {
				if r != nil && globMatch(kf.Obligation, r.Ob.Name) {
					isKnown = true
				}
			}
			if r != nil && len(r.Ob.Tags) > 0 && o.prop != "ALL" {
				rel := false
				for _, t := range r.Ob.Tags {
					if t == o.prop {
						rel = true
					}
				}
				if !rel {
					isKnown = true // another property's obligation: decided there
				}
			}
			if r != nil && len(r.Ob.Tags) == 0 && o.prop != "ALL" {
				// untagged obligation of a function whose props line does not name this property
				rel := false
				for _, p := range rep.Fx.ct.Props {
					if p == o.prop {
						rel = true
					}
				}
				if !rel {
					isKnown = true
				}
			}
			if r != nil && r.Ob.AltGrp != "" {
				isKnown = true // alternatives are expected to fail except one
			}
			if r != nil {
				for pat := range rep.Fx.ct.Unproved {
					if globMatch(pat, r.Ob.Label) {
						isKnown = true // waived: stated, not claimed
					}
				}
			}
			if os.Getenv("GVC_NORETRY") != "" {
				isKnown = true
			}
			if r != nil && r.Status == "undecided" && retried < 6 && !isKnown {
				retried++
				dir := filepath.Join(workRoot, sanitize(rep.Key))
				t0 := time.Now()
				nr := solve(dir, 90000+i, rep.Fx, r.Ob, rep.Fx.modelProbes(), timeoutMs*5/2, rep.Fx.u.strings)
				if os.Getenv("GVC_TIMING") != "" {
					fmt.Fprintf(os.Stderr, "timing retry %s -> %s by %s in %.1fs\n", r.Ob.Name, nr.Status, nr.Solver, time.Since(t0).Seconds())
				}
				if nr.Status == "discharged" || nr.Status == "refuted" {
					nr.Ms += r.Ms
					rep.Results[i] = nr
					if nr.Status == "discharged" {
						os.Remove(nr.Query)
					}
				}
			}
		}
	}
	if os.Getenv("GVC_TIMING") != "" {
		fmt.Fprintf(os.Stderr, "timing phase retry done at %.1fs (%d retried)\n", time.Since(start).Seconds(), retried)
	}
	// bounded stand-ins and extra checks registered for this property
	extra := runExtras(eng, o)

	violations := 0
	allowedUnreachable := loadAllowedUnreachable(filepath.Join(o.verifDir, "expected_unreachable.json"))
	var unreachable []string
	var records []obRecord
	var samples []interface{}
	obligations, discharged := 0, 0
	var solverMs int64
	funcsVerified := []string{}
	funcsUnder := []string{}
	trusted := map[string]bool{}
	unmodelled := map[string]bool{}
	var assumptions []string
	knownSeen := []string{}
	bySolver := map[string]int{}
	violate := func(name, body string, noInput bool) {
		p := filepath.Join(replayDir, sanitize(name)+".txt")
		os.WriteFile(p, []byte(body), 0o644)
		suffix := ""
		if noInput {
			suffix = " no-failing-input-found"
		}
		fmt.Printf("VIOLATION property=%s replay=%s%s\n", o.prop, p, suffix)
		violations++
	}
	if len(eng.specs.Errors) > 0 {
		violate("spec-errors", "contract files do not parse:\n"+strings.Join(eng.specs.Errors, "\n")+"\n", true)
	}
	if len(eng.immutErr) > 0 {
		violate("immutable-fields", "obligation: fields declared immutable are written only by their initialisers\n"+strings.Join(eng.immutErr, "\n")+"\n", true)
	}
	if len(keys) == 0 && len(extra) == 0 {
		violate("no-carriers", "no function under contract carries property "+o.prop+"\n", true)
	}
	for _, rep := range reports {
		funcsUnder = append(funcsUnder, rep.Key)
		if rep.Missing {
			violate(rep.Key+"#missing", fmt.Sprintf("obligation: carrier function %s no longer exists in /repo\nundecided: the function the contract is anchored in is gone\n", rep.Key), true)
			continue
		}
		if rep.Rejected != "" {
			violate(rep.Key+"#rejected", fmt.Sprintf("obligation: %s could not be translated\nreason: %s\n", rep.Key, rep.Rejected), true)
			continue
		}
		if len(rep.ClauseErrs) > 0 {
			violate(rep.Key+"#clauses", fmt.Sprintf("obligation: contract of %s cannot be evaluated against the current code\n%s\n", rep.Key, strings.Join(rep.ClauseErrs, "\n")), true)
			continue
		}
		for t := range rep.Fx.trusted {
			trusted[t] = true
		}
		for u := range rep.Fx.callsUnmodelled {
			unmodelled[rep.Key+" -> "+u] = true
		}
		for _, n := range rep.Notes {
			assumptions = append(assumptions, rep.Key+": "+n)
		}
		for _, n := range rep.Fx.assumes {
			assumptions = append(assumptions, rep.Key+": "+n)
		}
		allOK := true
		// untagged obligations (safety sites, frames) belong to the properties named on the function's props line
		fnProps := map[string]bool{}
		for _, p := range rep.Fx.ct.Props {
			fnProps[p] = true
		}
		// alternative groups: a group passes when all clauses of one alternative pass
		altFail := map[string]map[string]bool{} // group -> alternative -> failed
		altAll := map[string]map[string]bool{}
		for _, r := range rep.Results {
			if r.Ob.AltGrp != "" {
				parts := strings.SplitN(r.Ob.AltGrp, "/", 2)
				g, a := parts[0], ""
				if len(parts) > 1 {
					a = parts[1]
				}
				if altAll[g] == nil {
					altAll[g] = map[string]bool{}
					altFail[g] = map[string]bool{}
				}
				altAll[g][a] = true
				if r.Status != "discharged" {
					altFail[g][a] = true
				}
			}
		}
		altOK := map[string]bool{}
		for g, alts := range altAll {
			for a := range alts {
				if !altFail[g][a] {
					altOK[g] = true
				}
			}
		}
		for _, r := range rep.Results {
			solverMs += r.Ms
			rec := obRecord{Name: r.Ob.Name, Status: r.Status, Solver: r.Solver, Ms: r.Ms}
			tags := r.Ob.Tags
			relevant := false
			if len(tags) == 0 {
				relevant = fnProps[o.prop] || o.prop == "ALL"
			} else {
				for _, t := range tags {
					if t == o.prop {
						relevant = true
					}
				}
				if o.prop == "ALL" {
					relevant = true
				}
			}
			if r.Ob.Cover && strings.HasPrefix(r.Ob.Label, "cover:ret") {
				if r.Status == "vacuous" {
					unreachable = append(unreachable, r.Ob.Name)
					if !allowedUnreachable[r.Ob.Name] {
						allOK = false
						violate(r.Ob.Name, fmt.Sprintf("obligation: %s\nvacuity: this return is unreachable under the contracts in force (its path condition is unsatisfiable), so every postcondition there holds vacuously; on the pinned tree it was reachable. Either an assumed contract became contradictory or the code before it changed.\n", r.Ob.Name), true)
					}
				}
				continue
			}
			if r.Ob.Cover {
				if r.Status == "vacuous" {
					allOK = false
					violate(r.Ob.Name, fmt.Sprintf("obligation: %s\nvacuity: the assumed clause is contradictory (cover query unsat); nothing proved under it can be trusted\nclause: %s\n", r.Ob.Name, r.Ob.Goal), true)
				}
				continue
			}
			if r.Ob.AltGrp != "" {
				g := strings.SplitN(r.Ob.AltGrp, "/", 2)[0]
				if altOK[g] {
					if r.Status == "discharged" {
						obligations++
						discharged++
						bySolver[r.Solver]++
						records = append(records, rec)
					}
					continue
				}
			}
			waived := false
			if r.Status != "discharged" {
				for pat, waiver := range rep.Fx.ct.Unproved {
					if globMatch(pat, r.Ob.Label) {
						assumptions = append(assumptions, fmt.Sprintf("unproved site %s (waived: %s)", r.Ob.Name, waiver))
						waived = true
					}
				}
			}
			if waived {
				allOK = false // stated but not discharged: the function is not counted as verified
				continue
			}
			// known findings
			isKnown := false
			if r.Status != "discharged" {
				for _, kf := range known.Findings {
					if (kf.Property == o.prop || o.prop == "ALL") && globMatch(kf.Obligation, r.Ob.Name) {
						isKnown = true
						msg := fmt.Sprintf("KNOWN-FINDING: property=%s %s %s", o.prop, r.Ob.Name, kf.What)
						dup := false
						for _, s := range knownSeen {
							if s == msg {
								dup = true
							}
						}
						if !dup && relevant {
							fmt.Println(msg)
							knownSeen = append(knownSeen, msg)
						}
					}
				}
			}
			if isKnown {
				allOK = false
				rec.Status = "known-finding"
				records = append(records, rec)
				continue
			}
			obligations++
			records = append(records, rec)
			if r.Status == "discharged" {
				discharged++
				bySolver[r.Solver]++
				if len(samples) < 6 && r.Ob.Kind != "range" && r.Ob.Kind != "nil" {
					samples = append(samples, map[string]string{"obligation": r.Ob.Name, "goal": truncate(r.Ob.Goal, 400), "solver": r.Solver})
				}
				continue
			}
			allOK = false
			if !relevant {
				// failing obligation of a shared function that this property does not carry:
				// recorded, the function is not counted as verified, but it is another property's alarm
				assumptions = append(assumptions, fmt.Sprintf("function %s has an undischarged obligation outside %s: %s", rep.Key, o.prop, r.Ob.Name))
				obligations--
				records = records[:len(records)-1]
				continue
			}
			body, confirmed := eng.replayReport(rep, r, o)
			violate(r.Ob.Name, body, !confirmed)
		}
		if allOK {
			funcsVerified = append(funcsVerified, rep.Key)
		}
	}
	for _, x := range extra {
		for _, v := range x.Violations {
			violate(x.Name+"-"+v.Name, v.Body, !v.Confirmed)
		}
	}
	// canaries: a listed finding that no longer fails means the engine went blind or the defect was fixed
	for _, kf := range known.Findings {
		if kf.Property != o.prop {
			continue
		}
		seen := false
		for _, s := range knownSeen {
			if strings.Contains(s, strings.TrimSuffix(strings.SplitN(kf.Obligation, "*", 2)[0], "")) {
				seen = true
			}
		}
		if !seen {
			fmt.Printf("NOTE: known finding %s did not occur in this run (fixed, or its carrier changed)\n", kf.Obligation)
		}
	}
	tb := []string{}
	for t := range trusted {
		tb = append(tb, "assumed contract "+t)
	}
	sort.Strings(tb)
	for u := range unmodelled {
		assumptions = append(assumptions, "call without contract (results and heap havocked): "+u)
	}
	sort.Strings(assumptions)
	cov := map[string]interface{}{
		"obligations":              obligations,
		"discharged":               discharged,
		"checker_cmd":              fmt.Sprintf("bin/gvc check -p %s -tier %s  (VC generator over go/ssa of /repo -tags=verif; z3 4.8.12, z3 5.1.0, cvc5 1.0.3 portfolio)", o.prop, o.tier),
		"trusted_base":             tb,
		"functions_under_contract": funcsUnder,
		"functions_verified":       funcsVerified,
		"discharged_by_solver":     bySolver,
		"solver_time_s":            float64(solverMs) / 1000,
		"known_findings_seen":      knownSeen,
		"samples":                  samples,
		"obligation_records":       records,
		"integer_semantics":        "mathematical integers with a discharged in-range obligation at every arithmetic site",
		"unreachable_returns":      unreachable,
	}
	if len(extra) > 0 {
		var bs []interface{}
		for _, x := range extra {
			bs = append(bs, x.Summary)
		}
		cov["bounded_checks"] = bs
	}
	if obligations == 0 {
		// nothing was attempted (e.g. load failure): fall back to generic keys so the file stays valid
		cov["obligations"] = 0
	}
	writeEvidence(evidencePath, o, cov, nil, nil, time.Since(start), violations, assumptions)
	if !o.keep {
		os.RemoveAll(workRoot)
	}
	fmt.Printf("property %s: %d functions under contract, %d verified, %d/%d obligations discharged, %d violations, %.1fs\n",
		o.prop, len(funcsUnder), len(funcsVerified), discharged, obligations, violations, time.Since(start).Seconds())
	if violations > 0 {
		return 1
	}
	return 0
}

func truncate(s string, n int) string {
	if len(s) > n {
		return s[:n] + "…"
	}
	return s
}

func writeEvidence(path string, o checkOpts, cov map[string]interface{}, _ interface{}, _ interface{}, wall time.Duration, violations int, assumptions []string) {
	if cov == nil {
		cov = map[string]interface{}{"obligations": 0, "discharged": 0, "checker_cmd": "bin/gvc check", "trusted_base": []string{},
			"evaluations": 1, "distinct_nontrivial": 0}
	}
	level := "proof"
	if o.prop == "C07" {
		level = "other"
		cov["explanation"] = "lock-discipline obligations only (guarded-by, lock balance); linearizability over schedules is not decided by sequential deductive verification"
	}
	ev := map[string]interface{}{
		"property_id": o.prop,
		"tier":        o.tier,
		"seed":        o.seed,
		"level":       level,
		"coverage":    cov,
		"assumptions": assumptions,
		"wall_s":      wall.Seconds(),
		"violations":  violations,
	}
	if assumptions == nil {
		ev["assumptions"] = []string{}
	}
	data, _ := json.MarshalIndent(ev, "", " ")
	os.WriteFile(path, data, 0o644)
}

func loadAllowedUnreachable(path string) map[string]bool {
	m := map[string]bool{}
	data, err := os.ReadFile(path)
	if err != nil {
		return m
	}
	var names []string
	if json.Unmarshal(data, &names) == nil {
		for _, n := range names {
			m[n] = true
		}
	}
	return m
}
