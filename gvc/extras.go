package main

// Extra (non-SMT) checks attached to a property: bounded stand-ins and tool validation.
type extraViolation struct {
	Name      string
	Body      string
	Confirmed bool
}

type extraResult struct {
	Name       string
	Summary    map[string]interface{}
	Violations []extraViolation
}

func runExtras(e *Engine, o checkOpts) []*extraResult {
	return nil
}
