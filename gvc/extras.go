package main

import (
	"bytes"
	"fmt"
	"os"
	"os/exec"
	"path/filepath"
	"regexp"
	"regexp/syntax"
	"strings"
	"time"
)

// Extra (non-SMT) checks attached to a property: bounded stand-ins for assumed
// lemmas and validation of the engine's own translators. They are labelled
// bounded in the evidence and never counted as discharged obligations.
type extraViolation struct {
	Name      string
	Body      string
	Confirmed bool
}

type extraResult struct {
	Name       string
	Summary    map[string]interface{}
	Violations []extraViolation
}

func runExtras(e *Engine, o checkOpts) []*extraResult {
	var out []*extraResult
	switch o.prop {
	case "C17":
		out = append(out, splitLemmaCheck(o), regexTranslatorCheck(e, o))
	case "C03", "C04":
		out = append(out, boundedGoTest(o, "prefix-match", "bounded/prefixmatch_bounded_test.go", ".", "TestGvcBoundedPrefixMatch", 5, 7,
			"Prefix.Match (contract `nobody`: strings.Split/TrimLeft/Join outside solver reach) against the wording of C03 for every key and prefix over {a,b,/}, delimiter absent, '/' or 'b'; ties the uninterpreted mOK/mCommon/mPart of the listing contracts to 'starts with the prefix' / 'segment up to and including the first delimiter'"))
	case "C10":
		out = append(out, boundedGoTest(o, "routebase-opaque-keys", "bounded/routebase_bounded_test.go", ".", "TestGvcBoundedRouteBase", 7, 9,
			"routeBase splits the URL path into bucket and key without cleaning it: every path over {a,/,.} (which contains '.', '..' and empty segments) addresses exactly the bucket and key of the specification split, so dot segments stay part of the opaque key"))
	case "C16":
		out = append(out, boundedGoTest(o, "routebase-split", "bounded/routebase_bounded_test.go", ".", "TestGvcBoundedRouteBase", 7, 9,
			"slash normalisation in routeBase (strings.Trim + SplitN): bucket/key addressed by every path over {a,/,.} equals the specification and is stable under extra leading/trailing slashes"))
	}
	return out
}

func enumStrings(alphabet string, maxLen int, f func(s string)) int {
	n := 0
	var rec func(prefix []byte)
	rec = func(prefix []byte) {
		f(string(prefix))
		n++
		if len(prefix) == maxLen {
			return
		}
		for i := 0; i < len(alphabet); i++ {
			rec(append(prefix, alphabet[i]))
		}
	}
	rec(nil)
	return n
}

// splitLemmaCheck validates the two assumed clauses split1/split2 of
// ValidateBucketName against the real strings.Split and regexp packages.
func splitLemmaCheck(o checkOpts) *extraResult {
	start := time.Now()
	label := regexp.MustCompile(`^[a-z0-9]([a-z0-9\.-]+)[a-z0-9]$`)
	spec := regexp.MustCompile(`^[a-z0-9][a-z0-9-]+[a-z0-9](\.[a-z0-9][a-z0-9-]+[a-z0-9])*$`)
	maxLen := 9
	if o.tier == "thorough" {
		maxLen = 11
	}
	res := &extraResult{Name: "split-lemma"}
	bad := 0
	n := enumStrings("a0-.", maxLen, func(s string) {
		all := true
		for _, p := range strings.Split(s, ".") {
			if !label.MatchString(p) {
				all = false
			}
		}
		if all != spec.MatchString(s) && bad < 3 {
			bad++
			res.Violations = append(res.Violations, extraViolation{Name: fmt.Sprintf("case%d", bad), Confirmed: true,
				Body: fmt.Sprintf("obligation: assumed lemma split1/split2 of ValidateBucketName\nfailing input: %q: every piece matches the label pattern = %v, whole name matches the specification pattern = %v\n", s, all, spec.MatchString(s))})
		}
	})
	res.Summary = map[string]interface{}{"check": "assumed clauses split1/split2 (strings.Split pieces vs. specification pattern)", "bounded": true,
		"bound": fmt.Sprintf("all strings over {a,0,-,.} up to length %d", maxLen), "cases": n, "wall_s": time.Since(start).Seconds()}
	return res
}

// regexTranslatorCheck compares the engine's regexp -> RegLan translation with
// the real regexp package on all short strings (z3 evaluates ground memberships).
func regexTranslatorCheck(e *Engine, o checkOpts) *extraResult {
	start := time.Now()
	res := &extraResult{Name: "regex-translator"}
	pats := map[string]bool{}
	re := regexp.MustCompile(`inre\([^,]+,\s*"((?:[^"\\]|\\.)*)"\)`)
	for _, ct := range e.specs.Contracts {
		collect := func(cs []*Clause) {
			for _, c := range cs {
				for _, m := range re.FindAllStringSubmatch(c.Text, -1) {
					if p, err := unquoteGo(m[1]); err == nil {
						pats[p] = true
					}
				}
			}
		}
		collect(ct.Requires)
		collect(ct.Ensures)
		for _, l := range ct.Loops {
			collect(l.Invariants)
			collect(l.Assumes)
		}
	}
	for _, p := range e.specs.Preds {
		for _, m := range re.FindAllStringSubmatch(p.Text, -1) {
			if pp, err := unquoteGo(m[1]); err == nil {
				pats[pp] = true
			}
		}
	}
	for _, gi := range e.globals {
		if gi.hasRegex && !gi.external {
			pats[gi.regex] = true
		}
	}
	maxLen := 4
	if o.tier == "thorough" {
		maxLen = 5
	}
	var strs []string
	enumStrings("az09-.A:", maxLen, func(s string) { strs = append(strs, s) })
	cases := 0
	dir, _ := os.MkdirTemp("", "gvc-re-")
	defer os.RemoveAll(dir)
	for pat := range pats {
		gre, err := regexp.Compile(pat)
		if err != nil {
			continue
		}
		sre, err := syntax.Parse(pat, syntax.Perl)
		if err != nil {
			continue
		}
		rl, as, ae, err := regexToRegLan(sre.Simplify())
		if err != nil {
			res.Violations = append(res.Violations, extraViolation{Name: "untranslatable", Body: "regexp " + pat + " cannot be translated: " + err.Error() + "\n"})
			continue
		}
		if !as {
			rl = "(re.++ re.all " + rl + ")"
		}
		if !ae {
			rl = "(re.++ " + rl + " re.all)"
		}
		var b bytes.Buffer
		b.WriteString("(define-fun R () RegLan " + rl + ")\n")
		for _, s := range strs {
			b.WriteString("(simplify (str.in_re " + smtStringLit(s) + " R))\n")
		}
		f := filepath.Join(dir, "re.smt2")
		os.WriteFile(f, b.Bytes(), 0o644)
		out, _ := exec.Command("z3-new", f).Output()
		lines := strings.Split(strings.TrimSpace(string(out)), "\n")
		if len(lines) != len(strs) {
			res.Violations = append(res.Violations, extraViolation{Name: "solver", Body: "regex translator validation: unexpected solver output for " + pat + "\n" + truncate(string(out), 500)})
			continue
		}
		for i, s := range strs {
			cases++
			want := gre.MatchString(s)
			got := strings.TrimSpace(lines[i]) == "true"
			if want != got {
				res.Violations = append(res.Violations, extraViolation{Name: "mismatch", Confirmed: true,
					Body: fmt.Sprintf("regex translator validation: pattern %q on %q: regexp package says %v, RegLan translation says %v\n", pat, s, want, got)})
				break
			}
		}
	}
	res.Summary = map[string]interface{}{"check": "tool validation: regexp/syntax -> SMT RegLan translation vs. the regexp package", "bounded": true,
		"bound": fmt.Sprintf("all strings over {a,z,0,9,-,.,A,:} up to length %d, %d patterns", maxLen, len(pats)), "cases": cases, "wall_s": time.Since(start).Seconds()}
	return res
}

func unquoteGo(s string) (string, error) {
	var b strings.Builder
	for i := 0; i < len(s); i++ {
		if s[i] == '\\' && i+1 < len(s) {
			switch s[i+1] {
			case '\\':
				b.WriteByte('\\')
			case '"':
				b.WriteByte('"')
			case 'n':
				b.WriteByte('\n')
			default:
				b.WriteByte('\\')
				b.WriteByte(s[i+1])
			}
			i++
			continue
		}
		b.WriteByte(s[i])
	}
	return b.String(), nil
}

// boundedGoTest runs a bounded exhaustive Go test against the real code through -overlay.
func boundedGoTest(o checkOpts, name, file, pkgRel, test string, quickBound, thoroughBound int, what string) *extraResult {
	start := time.Now()
	res := &extraResult{Name: name}
	bound := quickBound
	if o.tier == "thorough" {
		bound = thoroughBound
	}
	dir, _ := os.MkdirTemp("", "gvc-bounded-")
	defer os.RemoveAll(dir)
	pkgDir := filepath.Join(o.repo, pkgRel)
	ov := fmt.Sprintf(`{"Replace":{%q:%q}}`, filepath.Join(pkgDir, "zz_gvc_bounded_test.go"), filepath.Join(o.verifDir, file))
	ovFile := filepath.Join(dir, "ov.json")
	os.WriteFile(ovFile, []byte(ov), 0o644)
	cmd := exec.Command("go", "test", "-overlay", ovFile, "-vet=off", "-count=1", "-timeout", "600s", "-run", "^"+test+"$", "-v", ".")
	cmd.Dir = pkgDir
	cmd.Env = append(os.Environ(), "GOFLAGS=-mod=mod", "GOPROXY=off", "GOSUMDB=off", "GOTOOLCHAIN=local", fmt.Sprintf("GVC_BOUND=%d", bound))
	out, _ := cmd.CombinedOutput()
	cases := 0
	ok := false
	var fails []string
	for _, l := range strings.Split(string(out), "\n") {
		if strings.HasPrefix(l, "BOUNDED-OK") {
			ok = true
			fmt.Sscanf(l, "BOUNDED-OK cases=%d", &cases)
		}
		if strings.HasPrefix(l, "BOUNDED-FAIL") {
			fails = append(fails, l)
		}
	}
	if !ok {
		body := "obligation: bounded stand-in " + name + " (" + what + ")\n"
		if len(fails) > 0 {
			body += "failing inputs on the real code:\n" + strings.Join(fails, "\n") + "\n"
		} else {
			body += "the bounded test did not complete:\n" + truncate(string(out), 2000) + "\n"
		}
		res.Violations = append(res.Violations, extraViolation{Name: "mismatch", Body: body, Confirmed: len(fails) > 0})
	}
	res.Summary = map[string]interface{}{"check": what, "bounded": true, "bound": fmt.Sprintf("length <= %d", bound), "cases": cases, "wall_s": time.Since(start).Seconds()}
	return res
}
