package main

import (
	"flag"
	"fmt"
	"os"
	"sort"
	"strconv"
)

func main() {
	if len(os.Args) < 2 {
		fmt.Println("usage: gvc check|list|dump|replay|selftest ...")
		os.Exit(2)
	}
	cmd := os.Args[1]
	fs := flag.NewFlagSet(cmd, flag.ExitOnError)
	prop := fs.String("p", "", "property id")
	tier := fs.String("tier", "", "quick|thorough")
	repo := fs.String("repo", "/repo", "repository working tree")
	vdir := fs.String("verif", "/verif", "verification directory")
	only := fs.String("f", "", "restrict to functions whose key contains this")
	keep := fs.Bool("keep", false, "keep query files")
	evdir := fs.String("evidence", "", "directory for evidence files (default <verif>/evidence)")
	verbose := fs.Bool("v", false, "verbose")
	fs.Parse(os.Args[2:])
	if *tier == "" {
		*tier = os.Getenv("VERIF_TIER")
		if *tier == "" {
			*tier = "quick"
		}
	}
	seed, _ := strconv.ParseInt(os.Getenv("VERIF_SEED"), 10, 64)
	switch cmd {
	case "check":
		os.Exit(runCheck(checkOpts{prop: *prop, tier: *tier, repo: *repo, verifDir: *vdir, seed: seed, only: *only, keep: *keep, verbose: *verbose, evidenceDir: *evdir}))
	case "list":
		eng, err := loadEngine(*repo, *vdir)
		if err != nil {
			fmt.Println(err)
			os.Exit(1)
		}
		var ks []string
		for k := range eng.funcs {
			ks = append(ks, k)
		}
		sort.Strings(ks)
		for _, k := range ks {
			mark := " "
			if eng.specs.Contracts[k] != nil {
				mark = "*"
			}
			fmt.Println(mark, k)
		}
		for _, e := range eng.specs.Errors {
			fmt.Println("SPEC-ERROR:", e)
		}
	case "ssa":
		eng, err := loadEngine(*repo, *vdir)
		if err != nil {
			fmt.Println(err)
			os.Exit(1)
		}
		if f := eng.funcs[*only]; f != nil {
			f.WriteTo(os.Stdout)
		} else {
			fmt.Println("no such function; try gvc list")
		}
	case "callees":
		eng, err := loadEngine(*repo, *vdir)
		if err != nil {
			fmt.Println(err)
			os.Exit(1)
		}
		eng.listCallees(*only)
	case "dump":
		eng, err := loadEngine(*repo, *vdir)
		if err != nil {
			fmt.Println(err)
			os.Exit(1)
		}
		for _, k := range eng.specs.Order {
			ct := eng.specs.Contracts[k]
			if ct.Kind != "func" || (*only != "" && k != *only) {
				continue
			}
			fx := eng.newFuncCtx(k, ct)
			if fx.fn == nil {
				fmt.Println("missing", k)
				continue
			}
			fx.run()
			fmt.Println(";;;; ", k, "rejected:", fx.rejected)
			fmt.Print(fx.u.prelude())
			for _, l := range fx.lines {
				fmt.Println(l)
			}
			for _, ob := range fx.obls {
				fmt.Printf("; OB %s\n;   reach %s\n;   goal %s\n", ob.Name, ob.Reach, ob.Goal)
			}
			for _, n := range fx.notes {
				fmt.Println("; NOTE", n)
			}
			for _, n := range fx.clauseErrs {
				fmt.Println("; CLAUSE-ERROR", n)
			}
		}
	default:
		fmt.Println("unknown command", cmd)
		os.Exit(2)
	}
}
