package main

import (
	"fmt"
	"regexp"
	"go/constant"
	"go/token"
	"go/types"
	"sort"
	"strings"

	"golang.org/x/tools/go/ssa"
)

type loopInfo struct {
	header  *ssa.BasicBlock
	blocks  map[*ssa.BasicBlock]bool
	ordinal int
	headSt  *State // state at header (after havoc, before invariants assumed)
}

// execResult of running a function body symbolically.
type retPoint struct {
	st   *State
	vals []*Val
	ins  *ssa.Return
}

// run executes the function body; it is repeated until loop modification sets
// are stable, and only the final pass emits obligations.
func (fx *FuncCtx) run() {
	fn := fx.fn
	if len(fn.Blocks) == 0 {
		fx.rejected = "no body"
		return
	}
	fx.findLoops()
	for pass := 0; pass < 8; pass++ {
		fx.resetPass()
		changed := fx.pass()
		if !changed && sameStoreLog(fx.storeLog, fx.prevStoreLog) {
			return
		}
		if fx.rejected != "" {
			return
		}
	}
	fx.rejected = "loop modification analysis did not converge"
}

func (fx *FuncCtx) resetPass() {
	fx.prevStoreLog, fx.storeLog = fx.storeLog, map[*ssa.BasicBlock]map[string]map[string]bool{}
	fx.prevSymLine, fx.symLine = fx.symLine, map[string]int{}
	fx.prevHeadLine, fx.headLine = fx.headLine, map[*ssa.BasicBlock]int{}
	fx.sliceArr = map[string]string{}
	fx.seeded = map[string]bool{}
	fx.wfSeen = map[string]bool{}
	fx.lines = nil
	fx.obls = nil
	fx.n = 0
	fx.compDecl = map[string]bool{}
	fx.siteN = map[string]int{}
	fx.epochN = 0
	fx.notes = nil
	fx.u = newUniverse(fx.ct != nil && fx.ct.Theory == "strings")
	fx.vals = map[ssa.Value]*Val{}
	fx.rets = nil
	fx.callN = map[string]int{}
	fx.callsUnmodelled = map[string]bool{}
	fx.callsContract = map[string]bool{}
	fx.assumes = nil
	fx.clauseErrs = nil
	fx.exitN = 0
	fx.qn = 0
	fx.heapAllocs = nil
	fx.regexes = nil
}

// findLoops computes natural loops from back edges (target dominates source).
func (fx *FuncCtx) findLoops() {
	fn := fx.fn
	fx.loops = map[*ssa.BasicBlock]*loopInfo{}
	for _, b := range fn.Blocks {
		for _, s := range b.Succs {
			if s.Dominates(b) {
				li := fx.loops[s]
				if li == nil {
					li = &loopInfo{header: s, blocks: map[*ssa.BasicBlock]bool{s: true}}
					fx.loops[s] = li
				}
				// collect blocks that reach b without passing through s
				var stack []*ssa.BasicBlock
				if !li.blocks[b] {
					li.blocks[b] = true
					stack = append(stack, b)
				}
				for len(stack) > 0 {
					x := stack[len(stack)-1]
					stack = stack[:len(stack)-1]
					for _, p := range x.Preds {
						if !li.blocks[p] {
							li.blocks[p] = true
							stack = append(stack, p)
						}
					}
				}
			}
		}
	}
	var hs []*ssa.BasicBlock
	for h := range fx.loops {
		hs = append(hs, h)
	}
	sort.Slice(hs, func(i, j int) bool { return hs[i].Index < hs[j].Index })
	for i, h := range hs {
		fx.loops[h].ordinal = i + 1
	}
	if fx.mods == nil {
		fx.mods = map[*ssa.BasicBlock]*loopMods{}
		for _, h := range hs {
			fx.mods[h] = &loopMods{cells: map[*ssa.Alloc]bool{}, comps: map[string]bool{}}
		}
	}
}

func isBackEdge(from, to *ssa.BasicBlock) bool { return to.Dominates(from) }

// rpo returns blocks in reverse post-order ignoring back edges.
func rpo(fn *ssa.Function) []*ssa.BasicBlock {
	seen := map[*ssa.BasicBlock]bool{}
	var order []*ssa.BasicBlock
	var visit func(b *ssa.BasicBlock)
	visit = func(b *ssa.BasicBlock) {
		seen[b] = true
		for i := len(b.Succs) - 1; i >= 0; i-- {
			s := b.Succs[i]
			if !seen[s] && !isBackEdge(b, s) {
				visit(s)
			}
		}
		order = append(order, b)
	}
	visit(fn.Blocks[0])
	for i, j := 0, len(order)-1; i < j; i, j = i+1, j-1 {
		order[i], order[j] = order[j], order[i]
	}
	return order
}

// pass runs one symbolic execution of the whole body. Returns true when a loop
// modification set grew (another pass is needed).
func (fx *FuncCtx) pass() bool {
	fn := fx.fn
	changed := false
	entry := &State{R: "true", Cells: map[*ssa.Alloc]*Val{}, Heap: map[string]string{}, Base: &heapBase{epoch: 0}}
	entry.Alloc = "alloc@0"
	fx.emit("(declare-const alloc@0 Int)")
	fx.emit("(assert (>= alloc@0 0))")
	// parameters
	fx.params = map[string]*Val{}
	for _, p := range fn.Params {
		v := fx.freshVal(entry, "p_"+sanitize(p.Name()), p.Type())
		fx.vals[p] = v
		fx.params[p.Name()] = v
	}
	for _, fv := range fn.FreeVars {
		// free variables are pointers to the captured variables
		v := fx.freshVal(entry, "fv_"+sanitize(fv.Name()), fv.Type())
		fx.vals[fv] = v
		fx.params[fv.Name()] = v
	}
	fx.entry = entry.clone()
	fx.ownRecs = nil
	if fx.ct != nil && len(fx.ct.RecFuns) > 0 {
		env := fx.clauseEnv(entry, entry, nil)
		env.fn = nil
		fx.ownRecs = fx.defineRecFuns(fx.ct, env)
	}
	// requires are assumed
	if fx.ct != nil {
		for _, c := range fx.ct.Requires {
			env := fx.clauseEnv(entry, entry, nil)
			t := fx.evalClause(c, env)
			fx.assumeTagged(entry, t, "req."+c.Label)
			if fx.ct.Kind == "func" {
				fx.coverProbe(entry, "requires."+c.Label, t)
			}
		}
	}
	if fx.ct != nil {
		for _, c := range fx.ct.Assumes {
			env := fx.clauseEnv(entry, entry, nil)
			env.fn = nil
			t := fx.evalClause(c, env)
			fx.assume(entry, t)
			fx.assumes = append(fx.assumes, fmt.Sprintf("assume %s: %s (because %s)", c.Label, c.Text, c.Because))
			fx.coverProbe(entry, "assume."+c.Label, t)
		}
	}
	fx.entryAfterReq = entry.clone()

	endState := map[*ssa.BasicBlock]*State{}
	order := rpo(fn)
	for _, b := range order {
		var st *State
		if b == fn.Blocks[0] {
			st = entry
		} else {
			var edges []edge
			for _, p := range b.Preds {
				if isBackEdge(p, b) {
					continue
				}
				ps, ok := endState[p]
				if !ok {
					continue // unreachable predecessor
				}
				edges = append(edges, edge{cond: fx.edgeCond(ps, p, b), st: ps})
			}
			if len(edges) == 0 {
				continue
			}
			fx.curEdges = edges
			fx.curEdgePreds = nil
			for _, p := range b.Preds {
				if !isBackEdge(p, b) {
					if _, ok := endState[p]; ok {
						fx.curEdgePreds = append(fx.curEdgePreds, p)
					}
				}
			}
			st = fx.merge(edges)
		}
		if li := fx.loops[b]; li != nil {
			st = fx.enterLoop(li, st)
		}
		fx.curBlock = b
		for _, ins := range b.Instrs {
			fx.step(st, ins)
			if fx.rejected != "" {
				return false
			}
		}
		endState[b] = st
		// back edges out of this block
		for _, s := range b.Succs {
			if isBackEdge(b, s) {
				li := fx.loops[s]
				if li == nil {
					continue
				}
				if fx.recordMods(li, st) {
					changed = true
				}
				fx.closeLoop(li, st, fx.edgeCond(st, b, s), b)
			}
		}
		// exit edges (for step clauses)
		for _, li := range fx.loops {
			if !li.blocks[b] {
				continue
			}
			if b == li.header {
				continue // leaving from the header: no iteration was started
			}
			for _, s := range b.Succs {
				if !li.blocks[s] {
					fx.exitLoop(li, st, fx.edgeCond(st, b, s))
				}
			}
		}
	}
	return changed
}

// edgeCond is the condition under which control flows from p (in state ps) to b.
func (fx *FuncCtx) edgeCond(ps *State, p, b *ssa.BasicBlock) string {
	last := p.Instrs[len(p.Instrs)-1]
	if iff, ok := last.(*ssa.If); ok {
		c := fx.val(ps, iff.Cond).T
		if p.Succs[0] == b && p.Succs[1] == b {
			return ps.R
		}
		if p.Succs[0] == b {
			return and(ps.R, c)
		}
		return and(ps.R, not(c))
	}
	return ps.R
}

// recordMods compares the latch state with the header state.
func (fx *FuncCtx) recordMods(li *loopInfo, latch *State) bool {
	m := fx.mods[li.header]
	changed := false
	hs := li.headSt
	for a, v := range latch.Cells {
		hv, ok := hs.Cells[a]
		if !ok {
			continue // allocated inside the loop
		}
		if hv != v && !(hv.T != "" && hv.T == v.T) {
			if !m.cells[a] {
				m.cells[a] = true
				changed = true
			}
		}
	}
	if latch.Base != hs.Base {
		if !m.all {
			m.all = true
			changed = true
		}
	}
	for c, t := range latch.Heap {
		ht, ok := hs.Heap[c]
		if !ok {
			ht = fx.baseLookup(hs.Base, c)
		}
		if ht != t && !m.comps[c] {
			m.comps[c] = true
			changed = true
		}
	}
	if latch.Alloc != hs.Alloc && !m.comps["$alloc"] {
		m.comps["$alloc"] = true
		changed = true
	}
	return changed
}

// enterLoop cuts the loop at its header.
func (fx *FuncCtx) enterLoop(li *loopInfo, pre *State) *State {
	m := fx.mods[li.header]
	var spec *LoopSpec
	if fx.ct != nil {
		spec = fx.ct.Loops[li.ordinal]
	}
	// invariant on entry
	if spec != nil {
		for _, c := range spec.Invariants {
			t := fx.evalGoal(c, fx.clauseEnv(pre, fx.entry, nil))
			ob := fx.oblige(pre, "inv-entry", fmt.Sprintf("inv-entry:loop%d.%s", li.ordinal, c.Label), t, token.NoPos, false)
			fx.tagClause(ob, c)
		}
	}
	st := pre.clone()
	st.Splits = nil
	rh := fx.declare("RH", "Bool")
	fx.emit("(assert " + imp(rh, pre.R) + ")")
	st.R = rh
	if m.all {
		fx.havocAll(st)
	}
	comps := make([]string, 0, len(m.comps))
	for c := range m.comps {
		comps = append(comps, c)
	}
	sort.Strings(comps)
	fx.headLine[li.header] = len(fx.lines)
	for _, c := range comps {
		if c == "$alloc" {
			old := st.Alloc
			st.Alloc = fx.declare("alloc", "Int")
			fx.emit(fmt.Sprintf("(assert (>= %s %s))", st.Alloc, old))
			continue
		}
		before, had := st.Heap[c]
		if !had {
			if _, known := fx.compSort[c]; known {
				before = fx.baseLookup(st.Base, c)
				had = true
			}
		}
		fx.havocComp(st, c)
		if had && !m.all {
			fx.loopFrame(li, rh, c, before, st.Heap[c], pre.Alloc)
		}
	}
	var cells []*ssa.Alloc
	for a := range m.cells {
		cells = append(cells, a)
	}
	sort.Slice(cells, func(i, j int) bool { return cells[i].Name() < cells[j].Name() })
	for _, a := range cells {
		old := st.Cells[a]
		if old == nil {
			continue
		}
		nv := fx.freshVal(st, "lv_"+sanitize(a.Comment), old.Ty)
		st.Cells[a] = nv
		if isInteger(old.Ty) {
			fx.seed(nv.T)
			fx.seed("(+ " + nv.T + " 1)")
		}
	}
	fx.rangeIndexFacts(li, st)
	li.headSt = st.clone()
	if spec != nil {
		for _, c := range spec.Assumes {
			t := fx.evalClause(c, fx.clauseEnv(st, fx.entry, nil))
			fx.assume(st, t)
			fx.assumes = append(fx.assumes, fmt.Sprintf("assume %s (loop %d): %s (because %s)", c.Label, li.ordinal, c.Text, c.Because))
			fx.coverProbe(st, fmt.Sprintf("loop%d.assume.%s", li.ordinal, c.Label), t)
		}
	}
	if spec != nil {
		for _, c := range spec.Invariants {
			t := fx.evalClause(c, fx.clauseEnv(st, fx.entry, nil))
			fx.assumeTagged(st, t, "inv."+c.Label)
			fx.coverProbe(st, fmt.Sprintf("loop%d.%s", li.ordinal, c.Label), t)
		}
	}
	return st
}

// closeLoop checks invariants, steps and variants on a back edge.
func (fx *FuncCtx) closeLoop(li *loopInfo, latch *State, cond string, from *ssa.BasicBlock) {
	if fx.ct == nil {
		return
	}
	spec := fx.ct.Loops[li.ordinal]
	if spec == nil {
		return
	}
	at := latch.clone()
	at.R = cond
	for _, c := range spec.Hints {
		// a lemma: proved here, then available to the obligations that follow
		if henv := fx.clauseEnv(at, li.headSt, nil); !hintInScope(fx, henv, from, c) {
			continue
		}
		t := fx.evalGoal(c, fx.clauseEnv(at, li.headSt, nil))
		ob := fx.oblige(at, "hint", fmt.Sprintf("hint:loop%d.%s@b%d", li.ordinal, c.Label, from.Index), t, token.NoPos, false)
		fx.tagClause(ob, c)
		ta := fx.evalClause(c, fx.clauseEnv(at, li.headSt, nil))
		fx.emit("(assert " + imp(at.R, ta) + ") ;@hyp:hint." + c.Label)
	}
	for _, c := range spec.Invariants {
		t := fx.evalGoal(c, fx.clauseEnv(at, fx.entry, nil))
		ob := fx.oblige(at, "inv-keep", fmt.Sprintf("inv-keep:loop%d.%s@b%d", li.ordinal, c.Label, from.Index), t, token.NoPos, false)
		fx.tagClause(ob, c)
	}
	for _, c := range spec.Steps {
		t := fx.evalGoal(c, fx.clauseEnv(at, li.headSt, nil))
		ob := fx.oblige(at, "step", fmt.Sprintf("step:loop%d.%s@b%d", li.ordinal, c.Label, from.Index), t, token.NoPos, false)
		fx.tagClause(ob, c)
	}
	for _, c := range spec.Decreases {
		now := fx.evalClause(c, fx.clauseEnv(at, fx.entry, nil))
		before := fx.evalClause(c, fx.clauseEnv(li.headSt, fx.entry, nil))
		ob := fx.oblige(at, "decr", fmt.Sprintf("decr:loop%d.%s@b%d", li.ordinal, c.Label, from.Index),
			and("(<= 0 "+before+")", "(< "+now+" "+before+")"), token.NoPos, false)
		fx.tagClause(ob, c)
	}
}

// exitLoop checks step clauses on edges leaving the loop.
func (fx *FuncCtx) exitLoop(li *loopInfo, st *State, cond string) {
	if fx.ct == nil {
		return
	}
	spec := fx.ct.Loops[li.ordinal]
	if spec == nil || (len(spec.Steps) == 0 && len(spec.Hints) == 0 && len(spec.ExitHints) == 0) {
		return
	}
	at := st.clone()
	at.R = cond
	fx.exitN++
	for _, c := range append(append([]*Clause(nil), spec.Hints...), spec.ExitHints...) {
		// the lemmas also hold (and are proved) on the edges that leave the loop mid-iteration
		if henv := fx.clauseEnv(at, li.headSt, nil); !hintInScope(fx, henv, fx.curBlock, c) {
			continue
		}
		t := fx.evalGoal(c, fx.clauseEnv(at, li.headSt, nil))
		ob := fx.oblige(at, "hint", fmt.Sprintf("hint:loop%d.%s@exit%d", li.ordinal, c.Label, fx.exitN), t, token.NoPos, false)
		fx.tagClause(ob, c)
		ta := fx.evalClause(c, fx.clauseEnv(at, li.headSt, nil))
		fx.emit("(assert " + imp(at.R, ta) + ") ;@hyp:hint." + c.Label)
	}
	for _, c := range spec.Steps {
		if c.Kind == "backstep" {
			continue
		}
		// an edge that leaves before the locals the clause names exist (the loop condition failing) ran no iteration
		if henv := fx.clauseEnv(at, li.headSt, nil); !hintInScope(fx, henv, fx.curBlock, c) {
			continue
		}
		t := fx.evalGoal(c, fx.clauseEnv(at, li.headSt, nil))
		ob := fx.oblige(at, "step", fmt.Sprintf("step:loop%d.%s@exit%d", li.ordinal, c.Label, fx.exitN), t, token.NoPos, false)
		fx.tagClause(ob, c)
	}
}

func (fx *FuncCtx) tagClause(ob *Obligation, c *Clause) {
	if ob == nil {
		return
	}
	ob.Clause = c
	ob.Tags = c.Props
	ob.Expr = c.Text
}

func (fx *FuncCtx) coverProbe(st *State, label, fact string) {
	ob := &Obligation{Fn: fx.fn.String(), Kind: "cover", Label: "cover:" + label, Reach: st.R, Goal: fact, Cover: true, Prefix: len(fx.lines)}
	ob.Name = fnDisplay(fx.fn) + "#" + ob.Label
	fx.obls = append(fx.obls, ob)
}

// freshVal creates an unconstrained value of a Go type with its type facts.
func (fx *FuncCtx) freshVal(st *State, prefix string, t types.Type) *Val {
	if tup, ok := t.(*types.Tuple); ok {
		v := &Val{Ty: t}
		for i := 0; i < tup.Len(); i++ {
			v.Tup = append(v.Tup, fx.freshVal(st, fmt.Sprintf("%s_%d", prefix, i), tup.At(i).Type()))
		}
		return v
	}
	s := fx.u.sortOf(t)
	n := fx.declare(prefix, s)
	v := &Val{T: n, Ty: t}
	fx.assume(st, fx.wf(st, n, t, 0))
	return v
}

// wf returns the well-formedness facts every value of type t satisfies.
func (fx *FuncCtx) wf(st *State, term string, t types.Type, depth int) string {
	if isLockType(t) {
		return "true"
	}
	if lo, hi, ok := intRange(t); ok {
		return fmt.Sprintf("(and (<= %s %s) (<= %s %s))", lo, term, term, hi)
	}
	switch tt := t.Underlying().(type) {
	case *types.Slice:
		return fmt.Sprintf("(and (<= 0 (sl_off %s)) (<= 0 (sl_len %s)) (<= (sl_len %s) (sl_cap %s)) (<= (+ (sl_off %s) (sl_cap %s)) 281474976710655) (<= 0 (sl_arr %s)) (<= (sl_arr %s) %s) (=> (= (sl_arr %s) 0) (= (sl_cap %s) 0)))",
			term, term, term, term, term, term, term, term, st.Alloc, term, term)
	case *types.Basic:
		if fx.u.strings && tt.Info()&types.IsString != 0 {
			return "(<= (str.len " + term + ") 281474976710655)"
		}
	case *types.Pointer, *types.Map:
		return fmt.Sprintf("(and (<= 0 %s) (<= %s %s))", term, term, st.Alloc)
	case *types.Interface:
		return fmt.Sprintf("(and (<= 0 (if_tag %s)) (=> (= (if_tag %s) 0) (= (if_val %s) 0)))", term, term, term)
	case *types.Struct:
		if depth > 2 {
			return "true"
		}
		s := fx.u.sortOf(t)
		var fs []string
		for i := 0; i < tt.NumFields(); i++ {
			fs = append(fs, fx.wf(st, "("+fx.u.fieldAcc(s, i)+" "+term+")", tt.Field(i).Type(), depth+1))
		}
		return and(fs...)
	}
	return "true"
}

// val returns the symbolic value of an SSA value.
func (fx *FuncCtx) val(st *State, v ssa.Value) *Val {
	switch x := v.(type) {
	case *ssa.Const:
		return fx.constVal(x)
	case *ssa.Global:
		return &Val{Ty: x.Type(), Addr: &Addr{Kind: AGlobal, Glob: x, Root: deref(x.Type()), Ty: deref(x.Type())}}
	case *ssa.Function:
		return &Val{T: fx.funcRef(x), Ty: x.Type(), Fn: x}
	case *ssa.Builtin:
		return &Val{Ty: x.Type(), Bad: "builtin value"}
	}
	if r, ok := fx.vals[v]; ok {
		return r
	}
	fx.note("use of undefined value %s (%T)", v.Name(), v)
	r := fx.freshVal(st, "undef", v.Type())
	fx.vals[v] = r
	return r
}

func (fx *FuncCtx) funcRef(f *ssa.Function) string {
	n := "fn$" + sanitize(f.String())
	if _, seen := fx.u.ufs[n]; !seen {
		// different functions are different values (and none is the nil function)
		decl := "(declare-const " + n + " Int)\n(assert (not (= " + n + " 0)))"
		for _, o := range fx.u.fnRefs {
			decl += "\n(assert (not (= " + n + " " + o + ")))"
		}
		fx.u.fnRefs = append(fx.u.fnRefs, n)
		return fx.u.uf(n, decl)
	}
	return n
}

func deref(t types.Type) types.Type {
	if p, ok := t.Underlying().(*types.Pointer); ok {
		return p.Elem()
	}
	return t
}

func (fx *FuncCtx) constVal(c *ssa.Const) *Val {
	t := c.Type()
	if c.Value == nil {
		return &Val{T: fx.u.zero(t), Ty: t}
	}
	switch c.Value.Kind() {
	case constant.Bool:
		if constant.BoolVal(c.Value) {
			return &Val{T: "true", Ty: t}
		}
		return &Val{T: "false", Ty: t}
	case constant.Int:
		return &Val{T: intLit(c.Value.ExactString()), Ty: t}
	case constant.String:
		return &Val{T: fx.u.strLit(constant.StringVal(c.Value)), Ty: t}
	case constant.Float:
		f, _ := constant.Float64Val(c.Value)
		return &Val{T: fmt.Sprintf("%f", f), Ty: t}
	}
	return &Val{T: fx.u.zero(t), Ty: t, Bad: "constant kind"}
}

// ---- addresses ----

func compName(root types.Type, path []int) string {
	var b strings.Builder
	b.WriteString("H$" + sanitize(shortTypeName(root)))
	t := root
	for _, i := range path {
		st := t.Underlying().(*types.Struct)
		b.WriteString("$" + st.Field(i).Name())
		t = st.Field(i).Type()
	}
	return b.String()
}

func isStruct(t types.Type) bool {
	if isLockType(t) {
		return false
	}
	_, ok := t.Underlying().(*types.Struct)
	return ok
}

// loadField loads a (possibly struct-typed) location below a heap struct.
func (fx *FuncCtx) loadField(st *State, base string, root types.Type, path []int, t types.Type) string {
	if isStruct(t) {
		s := fx.u.sortOf(t)
		stt := t.Underlying().(*types.Struct)
		if stt.NumFields() == 0 {
			return "mk_" + s
		}
		parts := []string{"mk_" + s}
		for i := 0; i < stt.NumFields(); i++ {
			parts = append(parts, fx.loadField(st, base, root, append(append([]int{}, path...), i), stt.Field(i).Type()))
		}
		return "(" + strings.Join(parts, " ") + ")"
	}
	cs := "(Array Int " + fx.u.sortOf(t) + ")"
	h := fx.heapGet(st, compName(root, path), cs)
	return "(select " + h + " " + base + ")"
}

func (fx *FuncCtx) storeField(st *State, base string, root types.Type, path []int, t types.Type, v string) {
	if isStruct(t) {
		s := fx.u.sortOf(t)
		stt := t.Underlying().(*types.Struct)
		for i := 0; i < stt.NumFields(); i++ {
			fx.storeField(st, base, root, append(append([]int{}, path...), i), stt.Field(i).Type(), "("+fx.u.fieldAcc(s, i)+" "+v+")")
		}
		return
	}
	cs := "(Array Int " + fx.u.sortOf(t) + ")"
	name := compName(root, path)
	h := fx.heapGet(st, name, cs)
	fx.heapSet(st, name, cs, "(store "+h+" "+base+" "+v+")")
}

// project applies a field path to a struct-valued term.
func (fx *FuncCtx) project(term string, t types.Type, path []int) (string, types.Type) {
	for _, i := range path {
		s := fx.u.sortOf(t)
		stt := t.Underlying().(*types.Struct)
		term = "(" + fx.u.fieldAcc(s, i) + " " + term + ")"
		t = stt.Field(i).Type()
	}
	return term, t
}

// update returns term with the location at path replaced by v.
func (fx *FuncCtx) update(term string, t types.Type, path []int, v string) string {
	if len(path) == 0 {
		return v
	}
	s := fx.u.sortOf(t)
	stt := t.Underlying().(*types.Struct)
	parts := []string{"mk_" + s}
	for i := 0; i < stt.NumFields(); i++ {
		f := "(" + fx.u.fieldAcc(s, i) + " " + term + ")"
		if i == path[0] {
			f = fx.update(f, stt.Field(i).Type(), path[1:], v)
		}
		parts = append(parts, f)
	}
	return "(" + strings.Join(parts, " ") + ")"
}

// typeKey names a heap component after the Go type it stores: differently
// typed slices, maps and cells cannot alias in Go, so they get separate components.
func typeKey(t types.Type) string {
	if b, ok := t.(*types.Basic); ok {
		switch b.Kind() {
		case types.Uint8:
			return "uint8"
		case types.Int32:
			return "int32"
		}
		return b.Name()
	}
	if _, ok := t.Underlying().(*types.Interface); ok {
		if _, named := t.(*types.Named); !named {
			return "any"
		}
	}
	return sanitize(shortTypeName(t))
}

func elemComp(u *Universe, elem types.Type) (name, sortName string) {
	es := u.sortOf(elem)
	return "E$" + typeKey(elem), "(Array Int (Array Int " + es + "))"
}

func cellComp(u *Universe, t types.Type) (name, sortName string) {
	es := u.sortOf(t)
	return "C$" + typeKey(t), "(Array Int " + es + ")"
}

func globComp(g *ssa.Global) string {
	return "G$" + sanitize(g.Pkg.Pkg.Name()+"."+g.Name())
}

func (fx *FuncCtx) load(st *State, a *Addr, pos token.Pos) *Val {
	switch a.Kind {
	case ALocal:
		cell := st.Cells[a.Alloc]
		if cell == nil {
			cell = &Val{T: fx.u.zero(a.Root), Ty: a.Root}
		}
		if len(a.Path) == 0 {
			return cell
		}
		if cell.T == "" {
			return &Val{Ty: a.Ty, Bad: "projection of engine-level value"}
		}
		t, ty := fx.project(cell.T, a.Root, a.Path)
		return &Val{T: t, Ty: ty}
	case AField:
		t := fx.loadField(st, a.Base, a.Root, a.Path, a.Ty)
		v := &Val{T: fx.define("ld", fx.u.sortOf(a.Ty), t), Ty: a.Ty}
		fx.assume(st, fx.wf(st, v.T, a.Ty, 0))
		return v
	case AElem:
		name, cs := elemComp(fx.u, a.Root)
		h := fx.heapGet(st, name, cs)
		t := "(select (select " + h + " " + a.Arr + ") " + a.Idx + ")"
		t, _ = fx.project(t, a.Root, a.Path)
		v := &Val{T: fx.define("ld", fx.u.sortOf(a.Ty), t), Ty: a.Ty}
		fx.assume(st, fx.wf(st, v.T, a.Ty, 0))
		return v
	case ACell:
		if isStruct(a.Root) {
			t := fx.loadField(st, a.Base, a.Root, a.Path, a.Ty)
			v := &Val{T: fx.define("ld", fx.u.sortOf(a.Ty), t), Ty: a.Ty}
			fx.assume(st, fx.wf(st, v.T, a.Ty, 0))
			return v
		}
		name, cs := cellComp(fx.u, a.Root)
		h := fx.heapGet(st, name, cs)
		t := "(select " + h + " " + a.Base + ")"
		t, _ = fx.project(t, a.Root, a.Path)
		v := &Val{T: fx.define("ld", fx.u.sortOf(a.Ty), t), Ty: a.Ty}
		fx.assume(st, fx.wf(st, v.T, a.Ty, 0))
		return v
	case AGlobal:
		if c := fx.eng.globalConst(fx, a.Glob); c != nil {
			if len(a.Path) == 0 {
				return c
			}
		}
		name := globComp(a.Glob)
		h := fx.heapGet(st, name, fx.u.sortOf(a.Root))
		t, _ := fx.project(h, a.Root, a.Path)
		v := &Val{T: fx.define("ld", fx.u.sortOf(a.Ty), t), Ty: a.Ty}
		fx.assume(st, fx.wf(st, v.T, a.Ty, 0))
		return v
	}
	return &Val{Ty: a.Ty, Bad: "load"}
}

func (fx *FuncCtx) store(st *State, a *Addr, v *Val) {
	switch a.Kind {
	case ALocal:
		if len(a.Path) == 0 {
			st.Cells[a.Alloc] = v
			return
		}
		cell := st.Cells[a.Alloc]
		if cell == nil || cell.T == "" || v.T == "" {
			st.Cells[a.Alloc] = &Val{Ty: a.Root, Bad: "partial store of engine-level value"}
			return
		}
		nt := fx.update(cell.T, a.Root, a.Path, v.T)
		st.Cells[a.Alloc] = &Val{T: fx.define("cu", fx.u.sortOf(a.Root), nt), Ty: a.Root}
		return
	}
	if v.T == "" {
		fx.note("store of engine-level value (%s) to heap: location havocked", v.Bad)
		v = fx.freshVal(st, "esc", a.Ty)
	}
	switch a.Kind {
	case AField:
		fx.storeField(st, a.Base, a.Root, a.Path, a.Ty, v.T)
	case AElem:
		name, cs := elemComp(fx.u, a.Root)
		h := fx.heapGet(st, name, cs)
		nv := v.T
		if len(a.Path) > 0 {
			old := "(select (select " + h + " " + a.Arr + ") " + a.Idx + ")"
			nv = fx.update(old, a.Root, a.Path, v.T)
		}
		fx.heapSet(st, name, cs, "(store "+h+" "+a.Arr+" (store (select "+h+" "+a.Arr+") "+a.Idx+" "+nv+"))")
	case ACell:
		if isStruct(a.Root) {
			fx.storeField(st, a.Base, a.Root, a.Path, a.Ty, v.T)
			return
		}
		name, cs := cellComp(fx.u, a.Root)
		h := fx.heapGet(st, name, cs)
		nv := v.T
		if len(a.Path) > 0 {
			nv = fx.update("(select "+h+" "+a.Base+")", a.Root, a.Path, v.T)
		}
		fx.heapSet(st, name, cs, "(store "+h+" "+a.Base+" "+nv+")")
		if arr, isArr := a.Root.Underlying().(*types.Array); isArr && len(a.Path) == 0 {
			// a heap array's elements live in the element heap at the same reference (that is where
			// indexing and slicing read them): a whole-array assignment updates that row too
			if es := fx.u.sortOf(a.Root); strings.HasPrefix(es, "(Array ") {
				ename, ecs := elemComp(fx.u, arr.Elem())
				eh := fx.heapGet(st, ename, ecs)
				fx.heapSet(st, ename, ecs, "(store "+eh+" "+a.Base+" "+nv+")")
			}
		}
	case AGlobal:
		name := globComp(a.Glob)
		s := fx.u.sortOf(a.Root)
		h := fx.heapGet(st, name, s)
		fx.heapSet(st, name, s, fx.update(h, a.Root, a.Path, v.T))
	}
}

// asAddr interprets a pointer value as an address of type elem.
func (fx *FuncCtx) asAddr(p *Val) *Addr {
	if p.Addr != nil {
		return p.Addr
	}
	elem := deref(p.Ty)
	if isStruct(elem) {
		return &Addr{Kind: AField, Base: p.T, Root: elem, Ty: elem}
	}
	if _, ok := elem.Underlying().(*types.Array); ok {
		return &Addr{Kind: ACell, Base: p.T, Root: elem, Ty: elem}
	}
	return &Addr{Kind: ACell, Base: p.T, Root: elem, Ty: elem}
}

// ptrTerm turns a pointer value into an SMT reference term when possible.
func (fx *FuncCtx) ptrTerm(st *State, p *Val) (string, bool) {
	if p.T != "" {
		return p.T, true
	}
	if p.Addr != nil && (p.Addr.Kind == AField || p.Addr.Kind == ACell) && len(p.Addr.Path) == 0 {
		return p.Addr.Base, true
	}
	return "", false
}

func (fx *FuncCtx) nilCheck(st *State, p *Val, what string, pos token.Pos) {
	if p.Addr != nil && (p.Addr.Kind == ALocal || p.Addr.Kind == AGlobal || p.Addr.Kind == AElem) {
		return
	}
	t, ok := fx.ptrTerm(st, p)
	if !ok {
		if p.Addr != nil {
			t = p.Addr.Base
		} else {
			return
		}
	}
	if p.Addr != nil && len(p.Addr.Path) > 0 {
		return // interior address: base was checked when the path was formed
	}
	ob := fx.oblige(st, "nil", fx.siteName("nil", what), "(not (= "+t+" 0))", pos, true)
	if ob != nil {
		ob.Expr = "nil dereference of " + what
	}
}

func sameStoreLog(a, b map[*ssa.BasicBlock]map[string]map[string]bool) bool {
	if len(a) != len(b) {
		return false
	}
	for h, ma := range a {
		mb := b[h]
		if len(ma) != len(mb) {
			return false
		}
		for c, sa := range ma {
			sb := mb[c]
			if len(sa) != len(sb) {
				return false
			}
			for i := range sa {
				if !sb[i] {
					return false
				}
			}
		}
	}
	return true
}

var symRe = regexp.MustCompile(`[A-Za-z_][A-Za-z0-9_.]*\$[0-9]+`)

// loopFrame assumes, at a loop header, that a havocked heap component only
// differs from its pre-loop value at the indices the loop body stores to
// (when those indices are loop-invariant terms or objects allocated inside the loop).
func (fx *FuncCtx) loopFrame(li *loopInfo, rh, comp, before, after, allocPre string) {
	idxs := fx.prevStoreLog[li.header][comp]
	if idxs == nil {
		return
	}
	headLine, ok := fx.prevHeadLine[li.header]
	if !ok {
		return
	}
	ks, _ := arraySorts(fx.compSort[comp])
	if ks == "" {
		return
	}
	var excl []string
	keys := make([]string, 0, len(idxs))
	for i := range idxs {
		keys = append(keys, i)
	}
	sort.Strings(keys)
	for _, idx := range keys {
		if idx == "*" {
			return
		}
		inv := true
		freshRef := false
		for _, sym := range symRe.FindAllString(idx, -1) {
			if ln, ok := fx.prevSymLine[sym]; ok && ln >= headLine {
				inv = false
				if idx == sym && strings.HasPrefix(sym, "ref$") && ks == "Int" {
					freshRef = true
				}
			}
		}
		if freshRef {
			continue
		}
		if !inv {
			return
		}
		excl = append(excl, "(not (= x!lf "+idx+"))")
	}
	conds := excl
	if ks == "Int" {
		conds = append([]string{"(<= x!lf " + allocPre + ")"}, excl...)
	}
	fx.emit(fmt.Sprintf("(assert %s)", imp(rh, fmt.Sprintf("(forall ((x!lf %s)) (! %s :pattern ((select %s x!lf))))", ks,
		imp(and(conds...), "(= (select "+after+" x!lf) (select "+before+" x!lf))"), after))))
}

// rangeIndexFacts: for the compiler-generated `for i := range x` loop the hidden
// index satisfies -1 <= idx < len(x) (or idx == -1 for an empty x) at the
// header. The pattern is checked syntactically: the index variable is written
// only by its initialisation to -1 and by the increment in the header.
func (fx *FuncCtx) rangeIndexFacts(li *loopInfo, st *State) {
	h := li.header
	if h.Comment != "rangeindex.loop" || len(h.Instrs) < 4 {
		return
	}
	ld, ok := h.Instrs[0].(*ssa.UnOp)
	if !ok || ld.Op != token.MUL {
		return
	}
	al, ok := ld.X.(*ssa.Alloc)
	if !ok || al.Comment != "rangeindex" || al.Heap {
		return
	}
	inc, ok := h.Instrs[1].(*ssa.BinOp)
	if !ok || inc.Op != token.ADD || inc.X != ld {
		return
	}
	iff, ok := h.Instrs[len(h.Instrs)-1].(*ssa.If)
	if !ok {
		return
	}
	cmp, ok := iff.Cond.(*ssa.BinOp)
	if !ok || cmp.Op != token.LSS || cmp.X != inc {
		return
	}
	stores := 0
	for _, ref := range *al.Referrers() {
		if s, ok := ref.(*ssa.Store); ok && s.Addr == al {
			stores++
			if c, isC := s.Val.(*ssa.Const); isC && c.Int64() == -1 {
				continue
			}
			if s.Val == inc && s.Block() == h {
				continue
			}
			return
		}
	}
	if stores != 2 {
		return
	}
	cell := st.Cells[al]
	lenV, ok := fx.vals[cmp.Y]
	if cell == nil || !ok || cell.T == "" || lenV.T == "" {
		return
	}
	fx.assume(st, fmt.Sprintf("(and (<= (- 1) %s) (or (< %s %s) (= %s (- 1))))", cell.T, cell.T, lenV.T, cell.T))
}

// hintInScope: a loop lemma that names a local which is not allocated on every path to
// this edge does not apply here (old(...) sub-expressions are judged at the same block:
// a local of an inner loop has no value at the header either way).
func hintInScope(fx *FuncCtx, env *Env, at *ssa.BasicBlock, c *Clause) bool {
	env.fn = fx.fn
	env.at = at
	return env.localsInScope(c.Expr)
}
