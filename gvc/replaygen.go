package main

import (
	"bytes"
	"context"
	"encoding/json"
	"fmt"
	"go/ast"
	"go/printer"
	"go/token"
	"go/types"
	"os"
	"os/exec"
	"path/filepath"
	"strconv"
	"strings"
	"time"
)

// replayOnRealCode builds an in-package Go test from the solver's model,
// runs the real function under recover() and evaluates the function's
// postconditions (compiled from the same clause text) on the outcome.
func replayOnRealCode(e *Engine, rep *FuncReport, r *Result, o checkOpts) (string, bool) {
	fx := rep.Fx
	fn := fx.fn
	if fn.Pkg == nil || fn.Parent() != nil {
		return "not replayed: closures are not replayed directly", false
	}
	if r.Model == nil {
		return "", false
	}
	var b bytes.Buffer
	pkgName := fn.Pkg.Pkg.Name()
	fmt.Fprintf(&b, "package %s\n\nimport (\n\t\"fmt\"\n\t\"regexp\"\n\t\"testing\"\n)\n\n", pkgName)
	b.WriteString("func gvcInre(s, pat string) bool { return regexp.MustCompile(pat).MatchString(s) }\n")
	qual := ""
	if pkgName != "gofakes3" {
		return "not replayed: direct replay is generated for the root package only", false
	}
	_ = qual
	b.WriteString("func gvcErrcode(err error) ErrorCode {\n\tif e, ok := err.(interface{ ErrorCode() ErrorCode }); ok {\n\t\treturn e.ErrorCode()\n\t}\n\treturn \"\"\n}\n")
	b.WriteString("func gvcIte(c bool, a, b int64) int64 {\n\tif c {\n\t\treturn a\n\t}\n\treturn b\n}\n\n")
	b.WriteString("func TestGvcReplay(t *testing.T) {\n")
	b.WriteString("\tdefer func() {\n\t\tif r := recover(); r != nil {\n\t\t\tfmt.Println(\"REPLAY-PANIC:\", r)\n\t\t}\n\t}()\n")
	// arguments
	var argNames []string
	for i, p := range fn.Params {
		v := fx.params[p.Name()]
		lit, ok := e.goValue(fx, v, p.Type(), r.Model)
		if !ok {
			return fmt.Sprintf("not replayed: parameter %s of type %s cannot be built from the model", p.Name(), p.Type()), false
		}
		name := p.Name()
		if name == "" || name == "_" {
			name = fmt.Sprintf("gvcArg%d", i)
		}
		fmt.Fprintf(&b, "\t%s := %s\n", name, lit)
		fmt.Fprintf(&b, "\tfmt.Printf(\"REPLAY-INPUT: %s = %%+v\\n\", %s)\n", name, derefFmt(name, p.Type()))
		argNames = append(argNames, name)
	}
	// call
	res := fn.Signature.Results()
	var rets []string
	for i := 0; i < res.Len(); i++ {
		rets = append(rets, fmt.Sprintf("ret%d", i))
	}
	call := ""
	if fn.Signature.Recv() != nil {
		call = fmt.Sprintf("%s.%s(%s)", argNames[0], fn.Name(), strings.Join(argNames[1:], ", "))
	} else {
		call = fmt.Sprintf("%s(%s)", fn.Name(), strings.Join(argNames, ", "))
	}
	if len(rets) > 0 {
		fmt.Fprintf(&b, "\t%s := %s\n", strings.Join(rets, ", "), call)
		for _, rn := range rets {
			fmt.Fprintf(&b, "\t_ = %s\n", rn)
		}
		for i, rn := range rets {
			fmt.Fprintf(&b, "\tfmt.Printf(\"REPLAY-OUTPUT: %s = %%+v\\n\", %s)\n", rn, derefFmt(rn, res.At(i).Type()))
		}
	} else {
		fmt.Fprintf(&b, "\t%s\n", call)
	}
	// post clauses
	nClauses := 0
	for _, c := range fx.ct.Ensures {
		goSrc, ok := clauseToGo(c, fn.Signature, e.specs.Preds)
		if !ok {
			fmt.Fprintf(&b, "\tfmt.Println(\"REPLAY-SKIP clause %s (not executable)\")\n", c.Label)
			continue
		}
		nClauses++
		fmt.Fprintf(&b, "\tif !(%s) {\n\t\tfmt.Println(\"REPLAY-CLAUSE-FALSE: %s\")\n\t}\n", goSrc, c.Label)
	}
	b.WriteString("\tfmt.Println(\"REPLAY-DONE\")\n}\n")
	// run
	dir, err := os.MkdirTemp("", "gvc-replay-")
	if err != nil {
		return "not replayed: " + err.Error(), false
	}
	defer os.RemoveAll(dir)
	testFile := filepath.Join(dir, "zz_gvc_replay_test.go")
	os.WriteFile(testFile, b.Bytes(), 0o644)
	pkgDir := filepath.Dir(e.prog.Fset.Position(fn.Pos()).Filename)
	ov := map[string]map[string]string{"Replace": {filepath.Join(pkgDir, "zz_gvc_replay_test.go"): testFile}}
	ovData, _ := json.Marshal(ov)
	ovFile := filepath.Join(dir, "overlay.json")
	os.WriteFile(ovFile, ovData, 0o644)
	ctx, cancel := context.WithTimeout(context.Background(), 120*time.Second)
	defer cancel()
	cmd := exec.CommandContext(ctx, "go", "test", "-tags", "verif", "-overlay", ovFile, "-vet=off", "-timeout", "60s", "-count=1", "-run", "^TestGvcReplay$", "-v", ".")
	cmd.Dir = pkgDir
	cmd.Env = append(os.Environ(), "GOFLAGS=-mod=mod", "GOPROXY=off", "GOSUMDB=off", "GOTOOLCHAIN=local")
	out, _ := cmd.CombinedOutput()
	var keep []string
	confirmed := false
	done := false
	for _, l := range strings.Split(string(out), "\n") {
		if strings.HasPrefix(l, "REPLAY-") {
			keep = append(keep, "  "+l)
		}
		if strings.HasPrefix(l, "REPLAY-PANIC") || strings.HasPrefix(l, "REPLAY-CLAUSE-FALSE") {
			confirmed = true
		}
		if strings.HasPrefix(l, "REPLAY-DONE") {
			done = true
		}
	}
	verdict := "REPLAY-NOT-REPRODUCED (the real code satisfies every executable postcondition on this input)"
	if confirmed {
		verdict = "REPLAY-CONFIRMED on the real code"
	} else if !done {
		verdict = "REPLAY-INCONCLUSIVE (test did not complete)\n" + truncate(string(out), 1500)
	}
	keep = append(keep, "  "+verdict)
	keep = append(keep, "  test source:\n"+indent(b.String(), "    | "))
	return strings.Join(keep, "\n"), confirmed
}

func indent(s, p string) string {
	ls := strings.Split(strings.TrimRight(s, "\n"), "\n")
	for i := range ls {
		ls[i] = p + ls[i]
	}
	return strings.Join(ls, "\n")
}

func derefFmt(name string, t types.Type) string {
	if p, ok := t.Underlying().(*types.Pointer); ok {
		if _, isS := p.Elem().Underlying().(*types.Struct); isS {
			return "func() interface{} { if " + name + " == nil { return nil }; return *" + name + " }()"
		}
	}
	return name
}

// goValue renders a parameter value from the model as Go source.
func (e *Engine) goValue(fx *FuncCtx, v *Val, t types.Type, model map[string]string) (string, bool) {
	if v == nil {
		return "", false
	}
	tn := types.TypeString(t, func(p *types.Package) string {
		if p.Name() == "gofakes3" {
			return ""
		}
		return p.Name()
	})
	switch tt := t.Underlying().(type) {
	case *types.Basic:
		mv, ok := model[v.T]
		switch {
		case tt.Info()&types.IsInteger != 0:
			if !ok {
				mv = "0"
			}
			return tn + "(" + mv + ")", true
		case tt.Info()&types.IsBoolean != 0:
			if !ok {
				mv = "false"
			}
			return mv, true
		case tt.Info()&types.IsString != 0:
			if fx.u.strings && ok {
				s, err := smtUnquote(mv)
				if err != nil {
					return "", false
				}
				return tn + "(" + strconv.Quote(s) + ")", true
			}
			if ok {
				// abstract strings: only literals are known
				for lit, name := range fx.u.lits {
					if mv == name {
						return tn + "(" + strconv.Quote(lit) + ")", true
					}
				}
			}
			return "", false
		}
	case *types.Pointer:
		mv, ok := model[v.T]
		if !ok || mv == "0" {
			return "(" + tn + ")(nil)", true
		}
		st, isS := tt.Elem().Underlying().(*types.Struct)
		if !isS {
			return "", false
		}
		var fields []string
		for i := 0; i < st.NumFields(); i++ {
			ft := st.Field(i).Type()
			key := "(select " + compName(tt.Elem(), []int{i}) + "@0 " + v.T + ")"
			fv, ok := model[key]
			if !ok {
				continue
			}
			switch fb := ft.Underlying().(type) {
			case *types.Basic:
				if fb.Info()&types.IsInteger != 0 || fb.Info()&types.IsBoolean != 0 {
					fields = append(fields, st.Field(i).Name()+": "+fv)
				} else {
					return "", false
				}
			default:
				// reference-typed fields are left zero unless the model needs them
				if fv != "0" {
					return "", false
				}
			}
		}
		etn := types.TypeString(tt.Elem(), func(p *types.Package) string {
			if p.Name() == "gofakes3" {
				return ""
			}
			return p.Name()
		})
		return "&" + etn + "{" + strings.Join(fields, ", ") + "}", true
	}
	return "", false
}

func smtUnquote(s string) (string, error) {
	if len(s) < 2 || s[0] != '"' || s[len(s)-1] != '"' {
		return "", fmt.Errorf("not a string literal")
	}
	s = s[1 : len(s)-1]
	s = strings.ReplaceAll(s, `""`, `"`)
	var b strings.Builder
	for i := 0; i < len(s); i++ {
		if s[i] == '\\' && i+2 < len(s) && s[i+1] == 'u' && s[i+2] == '{' {
			j := strings.IndexByte(s[i:], '}')
			if j < 0 {
				return "", fmt.Errorf("bad escape")
			}
			n, err := strconv.ParseUint(s[i+3:i+j], 16, 32)
			if err != nil {
				return "", err
			}
			if n > 255 {
				b.WriteRune(rune(n))
			} else {
				b.WriteByte(byte(n))
			}
			i += j
			continue
		}
		if s[i] == '\\' && i+5 < len(s) && s[i+1] == 'u' {
			n, err := strconv.ParseUint(s[i+2:i+6], 16, 32)
			if err == nil {
				b.WriteByte(byte(n))
				i += 5
				continue
			}
		}
		b.WriteByte(s[i])
	}
	return b.String(), nil
}

// clauseToGo compiles a clause to executable Go (same text, builtins mapped).
func clauseToGo(c *Clause, sig *types.Signature, preds map[string]*Pred) (string, bool) {
	if c.Expr == nil {
		return "", false
	}
	ok := true
	depth := 0
	var subst map[string]ast.Expr
	var rewrite func(x ast.Expr) ast.Expr
	rewrite = func(x ast.Expr) ast.Expr {
		switch n := x.(type) {
		case *ast.ParenExpr:
			return &ast.ParenExpr{X: rewrite(n.X)}
		case *ast.BinaryExpr:
			return &ast.BinaryExpr{X: rewrite(n.X), Op: n.Op, Y: rewrite(n.Y)}
		case *ast.UnaryExpr:
			return &ast.UnaryExpr{Op: n.Op, X: rewrite(n.X)}
		case *ast.SelectorExpr:
			return &ast.SelectorExpr{X: rewrite(n.X), Sel: n.Sel}
		case *ast.IndexExpr:
			return &ast.IndexExpr{X: rewrite(n.X), Index: rewrite(n.Index)}
		case *ast.StarExpr:
			return &ast.StarExpr{X: rewrite(n.X)}
		case *ast.Ident:
			if r, ok := subst[n.Name]; ok {
				return r
			}
			// named results are called retN in the test
			if sig != nil {
				for i := 0; i < sig.Results().Len(); i++ {
					if sig.Results().At(i).Name() == n.Name && n.Name != "" {
						return ast.NewIdent(fmt.Sprintf("ret%d", i))
					}
				}
			}
			return n
		case *ast.BasicLit:
			return n
		case *ast.CallExpr:
			name := ""
			if id, isId := n.Fun.(*ast.Ident); isId {
				name = id.Name
			}
			var args []ast.Expr
			for _, a := range n.Args {
				args = append(args, rewrite(a))
			}
			if pr, isPred := preds[name]; isPred && depth < 10 && len(pr.Params) == len(args) {
				saved := subst
				ns := map[string]ast.Expr{}
				for k, v := range subst {
					ns[k] = v
				}
				for i, pn := range pr.Params {
					ns[pn] = &ast.ParenExpr{X: args[i]}
				}
				subst = ns
				depth++
				out := rewrite(pr.Body)
				depth--
				subst = saved
				return &ast.ParenExpr{X: out}
			}
			switch name {
			case "inre":
				return &ast.CallExpr{Fun: ast.NewIdent("gvcInre"), Args: args}
			case "imp":
				return &ast.ParenExpr{X: &ast.BinaryExpr{X: &ast.UnaryExpr{Op: token.NOT, X: &ast.ParenExpr{X: args[0]}}, Op: token.LOR, Y: &ast.ParenExpr{X: args[1]}}}
			case "iff":
				return &ast.ParenExpr{X: &ast.BinaryExpr{X: &ast.ParenExpr{X: args[0]}, Op: token.EQL, Y: &ast.ParenExpr{X: args[1]}}}
			case "ite":
				return &ast.CallExpr{Fun: ast.NewIdent("gvcIte"), Args: []ast.Expr{args[0],
					&ast.CallExpr{Fun: ast.NewIdent("int64"), Args: []ast.Expr{args[1]}},
					&ast.CallExpr{Fun: ast.NewIdent("int64"), Args: []ast.Expr{args[2]}}}}
			case "errcode":
				return &ast.CallExpr{Fun: ast.NewIdent("gvcErrcode"), Args: args}
			case "fresh", "allocated":
				return ast.NewIdent("true")
			case "old", "all", "ex", "allref", "allstr", "exstr", "typeis", "dyn", "has", "prefixof", "suffixof", "contains", "indexof", "substr":
				ok = false
				return ast.NewIdent("true")
			}
			return &ast.CallExpr{Fun: n.Fun, Args: args}
		}
		ok = false
		return ast.NewIdent("true")
	}
	out := rewrite(c.Expr)
	if !ok {
		return "", false
	}
	var b bytes.Buffer
	printer.Fprint(&b, token.NewFileSet(), out)
	return b.String(), true
}
