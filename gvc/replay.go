package main

import (
	"fmt"
	"go/types"
	"sort"
	"strings"
)

// probeFields adds model probes for the fields reachable from a parameter.
func (fx *FuncCtx) probeFields(v *Val, add func(string)) {
	if v.Ty == nil {
		return
	}
	switch t := v.Ty.Underlying().(type) {
	case *types.Pointer:
		st, ok := t.Elem().Underlying().(*types.Struct)
		if !ok || isLockType(t.Elem()) {
			return
		}
		for i := 0; i < st.NumFields(); i++ {
			ft := st.Field(i).Type()
			if isStruct(ft) {
				continue
			}
			name := compName(t.Elem(), []int{i})
			c := fmt.Sprintf("%s@0", name)
			if fx.compDecl[c] {
				add("(select " + c + " " + v.T + ")")
			}
		}
	case *types.Slice:
		add("(sl_len " + v.T + ")")
		add("(sl_cap " + v.T + ")")
	}
}

// replayReport renders the replay file of a failed obligation and, where the
// function's inputs are plain data, replays the model against the real code.
func (e *Engine) replayReport(rep *FuncReport, r *Result, o checkOpts) (string, bool) {
	var b strings.Builder
	fmt.Fprintf(&b, "obligation: %s\n", r.Ob.Name)
	fmt.Fprintf(&b, "property: %s\n", o.prop)
	fmt.Fprintf(&b, "function: %s\n", rep.Key)
	fmt.Fprintf(&b, "kind: %s\n", r.Ob.Kind)
	if r.Ob.Pos.IsValid() {
		fmt.Fprintf(&b, "site: %s:%d\n", r.Ob.Pos.Filename, r.Ob.Pos.Line)
	}
	if r.Ob.Expr != "" {
		fmt.Fprintf(&b, "what: %s\n", r.Ob.Expr)
	}
	if r.Ob.Clause != nil {
		fmt.Fprintf(&b, "clause: %s:%d %s %s: %s\n", r.Ob.Clause.File, r.Ob.Clause.Line, r.Ob.Clause.Kind, r.Ob.Clause.Label, r.Ob.Clause.Text)
	}
	confirmed := false
	switch r.Status {
	case "refuted":
		fmt.Fprintf(&b, "verdict: refuted by %s in %d ms (counterexample below)\n", r.Solver, r.Ms)
		keys := make([]string, 0, len(r.Model))
		for k := range r.Model {
			keys = append(keys, k)
		}
		sort.Strings(keys)
		b.WriteString("model:\n")
		for _, k := range keys {
			fmt.Fprintf(&b, "  %s = %s\n", k, r.Model[k])
		}
		out, ok := e.directReplay(rep, r, o)
		if out != "" {
			b.WriteString("replay:\n" + out + "\n")
		}
		confirmed = ok
	default:
		fmt.Fprintf(&b, "verdict: undecided: timeout/unknown on all solvers (%d ms); the obligation is not discharged\n", r.Ms)
		if r.Candidate {
			b.WriteString("candidate model (from the quantifier-free weakening of the query; only a replay can confirm it):\n")
			keys := make([]string, 0, len(r.Model))
			for k := range r.Model {
				keys = append(keys, k)
			}
			sort.Strings(keys)
			for _, k := range keys {
				fmt.Fprintf(&b, "  %s = %s\n", k, r.Model[k])
			}
			out, ok := e.directReplay(rep, r, o)
			if out != "" {
				b.WriteString("replay:\n" + out + "\n")
			}
			confirmed = ok
		}
		if r.Detail != "" {
			fmt.Fprintf(&b, "solver detail: %s\n", r.Detail)
		}
	}
	fmt.Fprintf(&b, "solver output:\n%s\n", truncate(r.Raw, 4000))
	fmt.Fprintf(&b, "goal: %s\n", truncate(r.Ob.Goal, 4000))
	return b.String(), confirmed
}

// directReplay is filled in by replaygen.go
func (e *Engine) directReplay(rep *FuncReport, r *Result, o checkOpts) (string, bool) {
	return replayOnRealCode(e, rep, r, o)
}
