package main

import (
	"go/constant"
	"fmt"
	"go/ast"
	"go/token"
	"go/types"
	"sort"
	"strings"

	"golang.org/x/tools/go/ssa"
)

// shortFuncKey renders a function name with package paths shortened to names.
func shortFuncKey(f *ssa.Function) string {
	s := f.String()
	return shortenPaths(s)
}

func shortenPaths(s string) string {
	// replace any path/like/this.Name by this.Name
	var b strings.Builder
	i := 0
	for i < len(s) {
		j := i
		for j < len(s) && (isIdentChar(s[j]) || s[j] == '/' || s[j] == '.' || s[j] == '-') {
			j++
		}
		if j > i {
			tok := s[i:j]
			if k := strings.LastIndex(tok, "/"); k >= 0 {
				tok = tok[k+1:]
			}
			b.WriteString(tok)
			i = j
			continue
		}
		b.WriteByte(s[i])
		i++
	}
	return b.String()
}

func isIdentChar(c byte) bool {
	return c == '_' || c >= '0' && c <= '9' || c >= 'a' && c <= 'z' || c >= 'A' && c <= 'Z'
}

// pureFuncs are library functions treated as deterministic, heap-independent
// uninterpreted functions of their arguments.
var pureFuncs = map[string]bool{
	"strings.Trim": true, "strings.TrimSpace": true, "strings.TrimLeft": true, "strings.TrimRight": true,
	"strings.TrimPrefix": true, "strings.TrimSuffix": true, "strings.ToLower": true, "strings.ToUpper": true,
	"strings.Index": true, "strings.IndexByte": true, "strings.LastIndexByte": true, "strings.LastIndex": true,
	"strings.HasPrefix": true, "strings.HasSuffix": true, "strings.Contains": true, "strings.EqualFold": true,
	"strings.Join": true, "strings.Replace": true, "strings.ReplaceAll": true, "strings.Repeat": true,
	"hex.EncodeToString": true, "(*base64.Encoding).EncodeToString": true,
	"strconv.Itoa": true, "strconv.FormatInt": true, "strconv.Quote": true,
	"fmt.Sprintf": true, "fmt.Sprint": true, "fmt.Errorf": true, "errors.New": true,
	"textproto.CanonicalMIMEHeaderKey": true, "path.Join": true, "path.Clean": true, "path.Base": true, "path.Dir": true,
	"filepath.FromSlash": true, "filepath.ToSlash": true, "filepath.Dir": true, "filepath.Base": true, "filepath.Join": true, "filepath.Clean": true,
	"url.QueryUnescape": true, "url.QueryEscape": true, "url.PathEscape": true,
	"net.ParseIP": true, "time.Parse": true, "(time.Time).IsZero": true, "(time.Time).Before": true,
	"(time.Time).In": true, "(time.Time).Format": true, "(time.Time).UTC": true, "(time.Time).Sub": true,
	"(time.Time).After": true, "(time.Time).Equal": true, "(time.Time).Unix": true, "(time.Time).UnixNano": true,
	"(url.Values).Get": true, "(http.Header).Get": true, "(*url.URL).Query": true, "(*url.URL).String": true,
	"md5.Sum": true, "bytes.Equal": true, "(*big.Int).String": true,
	"(*regexp.Regexp).MatchString": true, "regexp.MustCompile": true,
	"math.MaxInt64": true, "(textproto.MIMEHeader).Get": true,
	"utf8.ValidString": true, "(*http.Request).FormValue": false,
}

// noEffectFuncs have results we do not model and no effect on modelled state.
var noEffectFuncs = map[string]bool{
	"(*log.Logger).Print": true, "(*log.Logger).Println": true, "(*log.Logger).Printf": true, "log.Println": true, "log.Printf": true, "log.Print": true,
	"time.Now": true, "ssa:deferstack": true, "(*sync.WaitGroup).Done": true,
	"(*atomic.Uint64).Add": true, "atomic.AddUint64": true,
	"(http.Header).Set": true, "(http.Header).Add": true, "(http.Header).Del": true,
	"md5.New": true, "(*big.Int).SetInt64": true,
}

func (fx *FuncCtx) hasPrefix(s, p string) string {
	if fx.u.strings {
		return "(str.prefixof " + p + " " + s + ")"
	}
	n := fx.u.uf("hasprefix", "(declare-fun hasprefix (Str Str) Bool)")
	return "(" + n + " " + s + " " + p + ")"
}

func (fx *FuncCtx) hasSuffix(s, p string) string {
	if fx.u.strings {
		return "(str.suffixof " + p + " " + s + ")"
	}
	n := fx.u.uf("hassuffix", "(declare-fun hassuffix (Str Str) Bool)")
	return "(" + n + " " + s + " " + p + ")"
}

func (fx *FuncCtx) strContains(s, p string) string {
	if fx.u.strings {
		return "(str.contains " + s + " " + p + ")"
	}
	n := fx.u.uf("strcontains", "(declare-fun strcontains (Str Str) Bool)")
	return "(" + n + " " + s + " " + p + ")"
}

func (fx *FuncCtx) strIndex(s, p string) string {
	if fx.u.strings {
		return "(str.indexof " + s + " " + p + " 0)"
	}
	n := fx.u.uf("strindex", "(declare-fun strindex (Str Str) Int)")
	return "(" + n + " " + s + " " + p + ")"
}

// call models a call instruction.
func (fx *FuncCtx) call(st *State, c *ssa.CallCommon, site ssa.Instruction, resT types.Type, pos token.Pos) *Val {
	var args []*Val
	for _, a := range c.Args {
		args = append(args, fx.val(st, a))
	}
	return fx.callWith(st, c, fx.valOrNil(st, c), args, site, resT, pos)
}

func (fx *FuncCtx) valOrNil(st *State, c *ssa.CallCommon) *Val {
	if _, ok := c.Value.(*ssa.Builtin); ok {
		return nil
	}
	return fx.val(st, c.Value)
}

func (fx *FuncCtx) callWith(st *State, c *ssa.CallCommon, fv *Val, args []*Val, site ssa.Instruction, resT types.Type, pos token.Pos) *Val {
	if b, ok := c.Value.(*ssa.Builtin); ok {
		return fx.builtin(st, b, c, args, site, resT, pos)
	}
	if c.IsInvoke() {
		recv := fv
		// nil interface method call panics
		ob := fx.oblige(st, "nil", fx.siteName("nil", fx.describe(site)), "(not (= (if_tag "+recv.T+") 0))", pos, true)
		if ob != nil {
			ob.Expr = "method call on nil interface in " + fx.describe(site)
		}
		keys := ifaceKeys(c)
		for _, k := range keys {
			if ct := fx.eng.specs.Contracts["iface:"+k]; ct != nil {
				names := append([]string{"self"}, sigNames(c.Method.Type().(*types.Signature), "")...)
				return fx.applyContract(st, ct, names, append([]*Val{recv}, args...), resT, "iface:"+k, pos, nil)
			}
		}
		if pureIface[keys[0]] || (len(keys) > 1 && pureIface[keys[1]]) {
			return fx.pureCall(st, "if$"+sanitize(keys[0]), append([]*Val{recv}, args...), resT)
		}
		return fx.unknownCall(st, "invoke "+keys[0], append([]*Val{recv}, args...), resT)
	}
	var callee *ssa.Function
	var binds []*Val
	switch v := c.Value.(type) {
	case *ssa.Function:
		callee = v
	case *ssa.MakeClosure:
		callee = v.Fn.(*ssa.Function)
		for _, b := range v.Bindings {
			binds = append(binds, fx.val(st, b))
		}
	default:
		if fv != nil && fv.Fn != nil {
			callee = fv.Fn
			binds = fv.Binds
		}
	}
	if callee == nil {
		// call through a function-typed field or variable
		if key := fx.funcFieldKey(c.Value); key != "" {
			if ct := fx.eng.specs.Contracts["funcfield:"+key]; ct != nil {
				names := sigNames(c.Value.Type().Underlying().(*types.Signature), "")
				return fx.applyContract(st, ct, names, args, resT, "funcfield:"+key, pos, nil)
			}
		}
		return fx.unknownCall(st, "dynamic call "+c.Value.Name(), args, resT)
	}
	key := shortFuncKey(callee)
	// engine built-in models
	if r, ok := fx.builtinModel(st, key, callee, args, site, resT, pos); ok {
		return r
	}
	if fx.eng.isSpecFunc(callee) {
		return fx.inlineSpec(callee, args, st)
	}
	if ct := fx.eng.contractFor(callee); ct != nil {
		var names []string
		for _, p := range callee.Params {
			names = append(names, p.Name())
		}
		all := append([]*Val{}, args...)
		for i, fvv := range callee.FreeVars {
			names = append(names, fvv.Name())
			if i < len(binds) {
				all = append(all, binds[i])
			} else {
				all = append(all, fx.freshVal(st, "bind", fvv.Type()))
			}
		}
		return fx.applyContract(st, ct, names, all, resT, ct.Key, pos, callee)
	}
	if ct := fx.eng.specs.Contracts["lib:"+key]; ct != nil {
		names := sigNames(callee.Signature, "self")
		if len(ct.Params) > 0 {
			names = ct.Params
		}
		return fx.applyContract(st, ct, names, args, resT, "lib:"+key, pos, callee)
	}
	if pureFuncs[key] {
		if key == "fmt.Sprintf" && len(args) == 2 {
			if elems, ok := fx.plainVariadic(st, c.Args[1], args[1]); ok {
				return fx.pureCall(st, "pf$fmt_Sprintf$v", append([]*Val{args[0]}, elems...), resT)
			}
		}
		if (key == "path.Join" || key == "filepath.Join") && len(args) == 1 {
			if elems, ok := fx.plainVariadic(st, c.Args[0], args[0]); ok {
				return fx.pureCall(st, "pf$"+sanitize(key)+"$v", elems, resT)
			}
		}
		return fx.pureCall(st, "pf$"+sanitize(key), args, resT)
	}
	if noEffectFuncs[key] {
		return fx.freshVal(st, "r_"+sanitize(callee.Name()), resT)
	}
	return fx.unknownCall(st, key, args, resT)
}

var pureIface = map[string]bool{
	"gofakes3.Error.ErrorCode": true, "error.Error": true, "gofakes3.TimeSource.Now": false,
	"awserr.Error.Code": true,
}

func ifaceKeys(c *ssa.CallCommon) []string {
	var keys []string
	rt := c.Value.Type()
	if n, ok := rt.(*types.Named); ok && n.Obj().Pkg() != nil {
		keys = append(keys, n.Obj().Pkg().Name()+"."+n.Obj().Name()+"."+c.Method.Name())
	} else if n, ok := rt.(*types.Named); ok {
		keys = append(keys, n.Obj().Name()+"."+c.Method.Name())
	}
	if sig, ok := c.Method.Type().(*types.Signature); ok && sig.Recv() != nil {
		if n, ok := sig.Recv().Type().(*types.Named); ok {
			k := n.Obj().Name() + "." + c.Method.Name()
			if n.Obj().Pkg() != nil {
				k = n.Obj().Pkg().Name() + "." + k
			}
			keys = append(keys, k)
		}
	}
	if len(keys) == 0 {
		keys = append(keys, "anon."+c.Method.Name())
	}
	return keys
}

func sigNames(sig *types.Signature, recvName string) []string {
	var names []string
	if recvName != "" && sig.Recv() != nil {
		if sig.Recv().Name() != "" && sig.Recv().Name() != "_" {
			names = append(names, sig.Recv().Name())
		} else {
			names = append(names, recvName)
		}
	}
	for i := 0; i < sig.Params().Len(); i++ {
		n := sig.Params().At(i).Name()
		if n == "" || n == "_" {
			n = fmt.Sprintf("a%d", i)
		}
		names = append(names, n)
	}
	return names
}

func (fx *FuncCtx) funcFieldKey(v ssa.Value) string {
	// value loaded from a captured variable of a closure: <outermost function>.<variable>
	if u, ok := v.(*ssa.UnOp); ok && u.Op == token.MUL {
		if fv, ok := u.X.(*ssa.FreeVar); ok {
			p := fv.Parent()
			for p.Parent() != nil {
				p = p.Parent()
			}
			return p.Name() + "." + fv.Name()
		}
	}
	// value loaded from a field: UnOp{*}(FieldAddr)
	if u, ok := v.(*ssa.UnOp); ok && u.Op == token.MUL {
		if fa, ok := u.X.(*ssa.FieldAddr); ok {
			st := deref(fa.X.Type())
			if n, ok := st.(*types.Named); ok {
				return n.Obj().Name() + "." + st.Underlying().(*types.Struct).Field(fa.Field).Name()
			}
		}
	}
	return ""
}

// pureCall applies an uninterpreted function to the argument terms.
func (fx *FuncCtx) pureCall(st *State, name string, args []*Val, resT types.Type) *Val {
	var sorts, terms []string
	for _, a := range args {
		t := a.T
		if t == "" {
			if pt, ok := fx.ptrTerm(st, a); ok {
				t = pt
			} else {
				fx.note("engine-level argument to %s", name)
				return fx.freshVal(st, "r", resT)
			}
		}
		if a.Ty != nil {
			if _, isSl := a.Ty.Underlying().(*types.Slice); isSl {
				// slices are passed by content snapshot: abstract as fresh per call
				ename, cs := elemComp(fx.u, a.Ty.Underlying().(*types.Slice).Elem())
				h := fx.heapGet(st, ename, cs)
				es := fx.u.sortOf(a.Ty.Underlying().(*types.Slice).Elem())
				sorts = append(sorts, "(Array Int "+es+")", "Int", "Int")
				terms = append(terms, "(select "+h+" (sl_arr "+t+"))", "(sl_off "+t+")", "(sl_len "+t+")")
				continue
			}
		}
		sorts = append(sorts, fx.u.sortOf(a.Ty))
		terms = append(terms, t)
	}
	mk := func(suffix string, rt types.Type) *Val {
		rs := fx.u.sortOf(rt)
		n := name + suffix + "$" + fmt.Sprint(len(sorts))
		fx.u.uf(n, "(declare-fun "+n+" ("+strings.Join(sorts, " ")+") "+rs+")")
		var t string
		if len(terms) == 0 {
			t = "(" + n + ")"
			t = n
		} else {
			t = "(" + n + " " + strings.Join(terms, " ") + ")"
		}
		if fx.pureInline {
			return &Val{T: t, Ty: rt}
		}
		v := &Val{T: fx.define("pc", rs, t), Ty: rt}
		fx.assume(st, fx.wfPure(st, v.T, rt))
		return v
	}
	if tup, ok := resT.(*types.Tuple); ok {
		if tup.Len() == 0 {
			return &Val{Ty: resT}
		}
		r := &Val{Ty: resT}
		for i := 0; i < tup.Len(); i++ {
			r.Tup = append(r.Tup, mk(fmt.Sprintf("$r%d", i), tup.At(i).Type()))
		}
		return r
	}
	return mk("", resT)
}

// wfPure: like wf but references produced by pure functions are not tied to
// the allocation counter (they denote fresh immutable data).
func (fx *FuncCtx) wfPure(st *State, term string, t types.Type) string {
	switch t.Underlying().(type) {
	case *types.Slice:
		return fmt.Sprintf("(and (<= 0 (sl_off %s)) (<= 0 (sl_len %s)) (<= (sl_len %s) (sl_cap %s)) (<= (+ (sl_off %s) (sl_cap %s)) 281474976710655) (<= 0 (sl_arr %s)))", term, term, term, term, term, term, term)
	case *types.Pointer, *types.Map:
		return "(<= 0 " + term + ")"
	}
	return fx.wf(st, term, t, 0)
}

func (fx *FuncCtx) unknownCall(st *State, what string, args []*Val, resT types.Type) *Val {
	fx.callsUnmodelled[what] = true
	fx.havocAll(st)
	// addresses of locals passed to unknown code: havoc those cells
	for _, a := range args {
		fx.havocEscaped(st, a)
	}
	return fx.freshVal(st, "r", resT)
}

func (fx *FuncCtx) havocEscaped(st *State, a *Val) {
	if a == nil || a.Addr == nil {
		return
	}
	if a.Addr.Kind == ALocal {
		old := st.Cells[a.Addr.Alloc]
		ty := a.Addr.Root
		if old != nil {
			ty = old.Ty
		}
		st.Cells[a.Addr.Alloc] = fx.freshVal(st, "esc", ty)
	}
}

// ---- builtins ----

func (fx *FuncCtx) builtin(st *State, b *ssa.Builtin, c *ssa.CallCommon, args []*Val, site ssa.Instruction, resT types.Type, pos token.Pos) *Val {
	switch b.Name() {
	case "len":
		a := args[0]
		switch at := a.Ty.Underlying().(type) {
		case *types.Slice:
			return &Val{T: fx.define("len", "Int", "(sl_len "+a.T+")"), Ty: resT}
		case *types.Basic:
			return &Val{T: fx.define("len", "Int", fx.u.slen(a.T)), Ty: resT}
		case *types.Map:
			l := fx.heapGet(st, "ML$len", "(Array Int Int)")
			v := &Val{T: fx.define("len", "Int", "(ite (= "+a.T+" 0) 0 (select "+l+" "+a.T+"))"), Ty: resT}
			fx.assume(st, "(>= "+v.T+" 0)")
			return v
		case *types.Array:
			return &Val{T: fmt.Sprint(at.Len()), Ty: resT}
		case *types.Pointer:
			if arr, ok := at.Elem().Underlying().(*types.Array); ok {
				return &Val{T: fmt.Sprint(arr.Len()), Ty: resT}
			}
		}
	case "cap":
		a := args[0]
		if _, ok := a.Ty.Underlying().(*types.Slice); ok {
			return &Val{T: fx.define("cap", "Int", "(sl_cap "+a.T+")"), Ty: resT}
		}
	case "append":
		return fx.builtinAppend(st, args, resT, pos)
	case "copy":
		dst, src := args[0], args[1]
		n := fx.declare("cpn", "Int")
		var srcLen string
		if isString(src.Ty) {
			srcLen = fx.u.slen(src.T)
		} else {
			srcLen = "(sl_len " + src.T + ")"
		}
		fx.assume(st, fmt.Sprintf("(= %s (ite (<= (sl_len %s) %s) (sl_len %s) %s))", n, dst.T, srcLen, dst.T, srcLen))
		elem := dst.Ty.Underlying().(*types.Slice).Elem()
		name, cs := elemComp(fx.u, elem)
		h := fx.heapGet(st, name, cs)
		row := fx.declare("cprow", "(Array Int "+fx.u.sortOf(elem)+")")
		// elements outside [off, off+n) keep their values; inside: copied from src
		q := fx.fresh("k")
		oldRow := "(select " + h + " " + fx.arrOf(dst.T) + ")"
		fx.emit(fmt.Sprintf("(assert (forall ((%s Int)) (! (=> (or (< %s (sl_off %s)) (>= %s (+ (sl_off %s) %s))) (= (select %s %s) (select %s %s))) :pattern ((select %s %s)))))",
			q, q, dst.T, q, dst.T, n, row, q, oldRow, q, row, q))
		if !isString(src.Ty) {
			srcRow := "(select " + h + " (sl_arr " + src.T + "))"
			fx.emit(fmt.Sprintf("(assert (forall ((%s Int)) (! (=> (and (<= 0 %s) (< %s %s)) (= (select %s (+ (sl_off %s) %s)) (select %s (+ (sl_off %s) %s)))) :pattern ((select %s (+ (sl_off %s) %s))))))",
				q, q, q, n, row, dst.T, q, srcRow, src.T, q, row, dst.T, q))
		}
		fx.heapSet(st, name, cs, "(store "+h+" "+fx.arrOf(dst.T)+" "+row+")")
		return &Val{T: n, Ty: resT}
	case "delete":
		m, k := args[0], args[1]
		mt := m.Ty.Underlying().(*types.Map)
		hn, hs, _, _ := fx.mapComps(mt.Key(), mt.Elem())
		h := fx.heapGet(st, hn, hs)
		had := "(select (select " + h + " " + m.T + ") " + k.T + ")"
		ln, ls := "ML$len", "(Array Int Int)"
		l := fx.heapGet(st, ln, ls)
		// deleting from a nil map is a no-op
		fx.heapSet(st, ln, ls, "(store "+l+" "+m.T+" (ite "+had+" (- (select "+l+" "+m.T+") 1) (select "+l+" "+m.T+")))")
		fx.heapSet(st, hn, hs, "(store "+h+" "+m.T+" (store (select "+h+" "+m.T+") "+k.T+" false))")
		return &Val{Ty: resT}
	case "print", "println":
		return &Val{Ty: resT}
	case "ssa:wrapnilchk":
		fx.nilCheck(st, args[0], "method value receiver", pos)
		return args[0]
	case "min", "max":
		op := "<="
		if b.Name() == "max" {
			op = ">="
		}
		t := args[0].T
		for _, a := range args[1:] {
			t = "(ite (" + op + " " + t + " " + a.T + ") " + t + " " + a.T + ")"
		}
		return &Val{T: fx.define("mm", "Int", t), Ty: resT}
	case "recover":
		return &Val{T: "(mk_if 0 0)", Ty: resT}
	}
	if b.Name() == "ssa:deferstack" {
		return &Val{T: "0", Ty: resT}
	}
	fx.note("builtin %s abstracted", b.Name())
	return fx.freshVal(st, "bi", resT)
}

// builtinAppend: append always reallocates (content = old ++ new).
func (fx *FuncCtx) builtinAppend(st *State, args []*Val, resT types.Type, pos token.Pos) *Val {
	s, more := args[0], args[1]
	elem := resT.Underlying().(*types.Slice).Elem()
	name, cs := elemComp(fx.u, elem)
	es := fx.u.sortOf(elem)
	r := fx.newRef(st)
	h := fx.heapGet(st, name, cs)
	var moreLen string
	moreIsStr := isString(more.Ty)
	if moreIsStr {
		moreLen = fx.u.slen(more.T)
	} else {
		moreLen = "(sl_len " + more.T + ")"
	}
	newLen := fx.define("alen", "Int", "(+ (sl_len "+s.T+") "+moreLen+")")
	row := fx.declare("aprow", "(Array Int "+es+")")
	q := fx.fresh("k")
	oldRow := "(select " + h + " (sl_arr " + s.T + "))"
	fx.emit(fmt.Sprintf("(assert (forall ((%s Int)) (! (=> (and (<= 0 %s) (< %s (sl_len %s))) (= (select %s %s) (select %s (+ (sl_off %s) %s)))) :pattern ((select %s %s)))))",
		q, q, q, s.T, row, q, oldRow, s.T, q, row, q))
	if !moreIsStr {
		srcRow := "(select " + h + " (sl_arr " + more.T + "))"
		// appended part: indexed by the position in the source (matches row[len(s)+q] directly, the common single-element case) ...
		fx.emit(fmt.Sprintf("(assert (forall ((%s Int)) (! (=> (and (<= 0 %s) (< %s %s)) (= (select %s (+ (sl_len %s) %s)) (select %s (+ (sl_off %s) %s)))) :pattern ((select %s (+ (sl_len %s) %s))))))",
			q, q, q, moreLen, row, s.T, q, srcRow, more.T, q, row, s.T, q))
		// ... and by the position in the result (so that E-matching finds it from row[k])
		fx.emit(fmt.Sprintf("(assert (forall ((%s Int)) (! (=> (and (<= (sl_len %s) %s) (< %s %s)) (= (select %s %s) (select %s (+ (sl_off %s) (- %s (sl_len %s)))))) :pattern ((select %s %s)))))",
			q, s.T, q, q, newLen, row, q, srcRow, more.T, q, s.T, row, q))
	}
	fx.heapSet(st, name, cs, "(store "+h+" "+r+" "+row+")")
	capT := fx.declare("acap", "Int")
	fx.emit("(assert (>= " + capT + " " + newLen + "))")
	fx.appendSites++
	return &Val{T: fx.define("app", "Sl", "(mk_sl "+r+" 0 "+newLen+" "+capT+")"), Ty: resT}
}

// ---- contracts at call sites ----

func (fx *FuncCtx) applyContract(st *State, ct *Contract, names []string, args []*Val, resT types.Type, key string, pos token.Pos, callee *ssa.Function) *Val {
	fx.callsContract[key] = true
	if ct.Trusted || ct.NoBody {
		fx.trusted[key] = true
	}
	fx.callN[key]++
	k := fx.callN[key]
	vars := map[string]*Val{}
	for i, n := range names {
		if i < len(args) {
			vars[n] = args[i]
			vars[fmt.Sprintf("a%d", i)] = args[i]
		}
	}
	pkg := fx.eng.pkgOfContract(ct, callee)
	pre := st.clone()
	envPre := &Env{fx: fx, st: pre, old: pre, vars: vars, pkg: pkg, errs: &fx.clauseErrs, lets: ct.Lets}
	recs := fx.defineRecFuns(ct, envPre)
	envPre.recs = recs
	short := key
	if i := strings.LastIndex(short, ":"); i >= 0 {
		short = short[i+1:]
	}
	for _, c := range ct.Requires {
		t := fx.evalGoal(c, envPre)
		ob := fx.oblige(st, "pre", fmt.Sprintf("pre:%s.%s@call%d", short, c.Label, k), t, pos, true)
		if ob != nil {
			ob.Expr = "precondition " + c.Label + " of " + short + ": " + c.Text
			ob.Tags = c.Props
		}
	}
	pre.R = st.R
	// frame
	switch {
	case ct.Pure:
	case ct.ModGoHeap:
		// keep the ghost components, forget every Go heap location
		saved := map[string]string{}
		for _, g := range fx.eng.specs.Ghosts {
			saved["G$"+g.Name] = fx.heapGet(st, "G$"+g.Name, g.Sort)
		}
		fx.havocAll(st)
		for c, t := range saved {
			st.Heap[c] = t
		}
	case ct.ModAll || (!ct.ModSet && ct.Kind != "lib" && ct.Kind != "iface"):
		fx.havocAll(st)
	default:
		for i, m := range ct.Modifies {
			fx.havocLocation(st, envPre, m, ct.ModText[i])
		}
		// the callee may allocate: results can be fresh references
		old := st.Alloc
		st.Alloc = fx.declare("alloc", "Int")
		fx.emit(fmt.Sprintf("(assert (>= %s %s))", st.Alloc, old))
	}
	for _, a := range args {
		if a.Addr != nil && a.Addr.Kind == ALocal && !ct.Pure {
			// address of a local passed to a callee: only modelled when listed in modifies via *name
			found := false
			for i, m := range ct.Modifies {
				if s, ok := m.(*ast.StarExpr); ok {
					if id, ok := s.X.(*ast.Ident); ok && vars[id.Name] == a {
						found = true
					}
				}
				_ = i
			}
			if !found && ct.ModSet {
				continue
			}
			fx.havocEscaped(st, a)
		}
	}
	// higher-order library function: the function value passed for `invokes p` is called here,
	// so its contract's preconditions are checked in the caller's state and its effects apply
	var cbRes *Val
	if ct.Invokes != "" {
		if fv := vars[ct.Invokes]; fv != nil && fv.Fn != nil {
			if cct := fx.eng.contractFor(fv.Fn); cct != nil {
				var cn []string
				var ca []*Val
				for _, p := range fv.Fn.Params {
					cn = append(cn, p.Name())
					a := fx.freshVal(st, "cb_"+sanitize(p.Name()), p.Type())
					if _, isPtr := p.Type().Underlying().(*types.Pointer); isPtr && a.T != "" {
						fx.assume(st, "(not (= "+a.T+" 0))")
					}
					ca = append(ca, a)
				}
				if len(ct.Passes) > 0 {
					pv := map[string]*Val{}
					for i := range fv.Fn.Params {
						pv[fmt.Sprintf("cb%d", i)] = ca[i]
					}
					penv := &Env{fx: fx, st: st, old: st, vars: pv, pkg: pkg, errs: &fx.clauseErrs}
					for _, c := range ct.Passes {
						fx.assumeTagged(st, fx.evalClause(c, penv), "call."+shortCallee(short)+"."+c.Label)
					}
				}
				for i, fvv := range fv.Fn.FreeVars {
					cn = append(cn, fvv.Name())
					if i < len(fv.Binds) {
						ca = append(ca, fv.Binds[i])
					} else {
						ca = append(ca, fx.freshVal(st, "bind", fvv.Type()))
					}
				}
				var crt types.Type = fv.Fn.Signature.Results()
				if fv.Fn.Signature.Results().Len() == 1 {
					crt = fv.Fn.Signature.Results().At(0).Type()
				}
				if ct.InvokesMany {
					// called any number of times with arguments of the library's choosing: only the frame of the
					// function value applies (its preconditions are the library's business, its postconditions
					// describe one call and are not assumed)
					frameOnly := *cct
					frameOnly.Requires, frameOnly.Ensures, frameOnly.Lets = nil, nil, nil
					fx.applyContract(st, &frameOnly, cn, ca, crt, cct.Key, pos, fv.Fn)
				} else {
					cbRes = fx.applyContract(st, cct, cn, ca, crt, cct.Key, pos, fv.Fn)
				}
			} else {
				fx.note("function value passed to %s has no contract: its effects are havocked", short)
				fx.havocAll(st)
			}
		}
	}
	// results
	var res *Val
	if ct.Pure && resT != nil {
		res = fx.pureCall(st, "pc$"+sanitize(short), args, resT)
	} else {
		res = fx.freshVal(st, "r_"+sanitize(short), resT)
	}
	post := map[string]*Val{}
	for n, v := range vars {
		post[n] = v
	}
	if tup, ok := resT.(*types.Tuple); ok {
		for i := 0; i < tup.Len(); i++ {
			post[fmt.Sprintf("ret%d", i)] = res.Tup[i]
			if n := tup.At(i).Name(); n != "" && n != "_" {
				if _, clash := post[n]; !clash {
					post[n] = res.Tup[i]
				}
			}
		}
	} else if resT != nil {
		post["ret0"] = res
		post["ret"] = res
		if callee != nil && callee.Signature.Results().Len() == 1 {
			if n := callee.Signature.Results().At(0).Name(); n != "" && n != "_" {
				if _, clash := post[n]; !clash {
					post[n] = res
				}
			}
		}
	}
	if cbRes != nil {
		// the result of the invoked function value, for clauses of the higher-order library function
		if cbRes.Tup != nil {
			for i, r := range cbRes.Tup {
				post[fmt.Sprintf("cbret%d", i)] = r
			}
		} else {
			post["cbret0"] = cbRes
		}
	}
	envPost := &Env{fx: fx, st: st, old: pre, vars: post, pkg: pkg, errs: &fx.clauseErrs, lets: ct.Lets, recs: recs}
	for _, c := range ct.Ensures {
		if cond, names, ok := restoredGuard(c.Expr); ok {
			// imp(cond, restored(g1, g2, ...)): under cond the named ghosts are what they were before the call
			// (whatever an invoked function value did to them) - an assignment, not an assumption
			cv := envPost.eval(cond)
			if cv.T != "" && cv.Bad == "" {
				fx.restoreGhostsWhen(st, pre, cv.T, names)
				continue
			}
		}
		if cond, ok := unchangedGuard(c.Expr); ok {
			// imp(cond, unchanged()): under cond the callee leaves the heap as it was
			ct := envPost.eval(cond)
			if ct.T != "" && ct.Bad == "" {
				fx.restoreWhen(st, pre, ct.T)
				continue
			}
		}
		t := fx.evalClause(c, envPost)
		// callee postconditions are named call.<callee>.<label>; a `uses` list with -calls hides the ones it does not name
		fx.assumeTagged(st, t, "call."+shortCallee(short)+"."+c.Label)
	}
	return res
}

// shortCallee: "gofakes3.(*bucketUploads).remove" -> "remove", "skiplist.(*SkipList).Get" -> "Get"
func shortCallee(k string) string {
	if i := strings.LastIndex(k, "."); i >= 0 {
		return k[i+1:]
	}
	return k
}

// havocLocation forgets the value of a location named in a modifies clause.
func (fx *FuncCtx) havocLocation(st *State, env *Env, m ast.Expr, text string) {
	switch x := m.(type) {
	case *ast.SelectorExpr:
		base := env.eval(x.X)
		if base.Ty == nil {
			break
		}
		a := fx.asAddr(base)
		obj, path, _ := types.LookupFieldOrMethod(base.Ty, true, env.pkgOf(base.Ty), x.Sel.Name)
		fld, ok := obj.(*types.Var)
		if !ok {
			break
		}
		if a.Kind == ALocal {
			fx.havocEscaped(st, base)
			return
		}
		na := &Addr{Kind: AField, Base: a.Base, Root: a.Root, Path: append(append([]int{}, a.Path...), path...), Ty: fld.Type()}
		v := fx.freshVal(st, "mod_"+sanitize(x.Sel.Name), fld.Type())
		fx.store(st, na, v)
		return
	case *ast.StarExpr:
		base := env.eval(x.X)
		if base.Addr != nil && base.Addr.Kind == ALocal {
			fx.havocEscaped(st, base)
			return
		}
		a := fx.asAddr(base)
		v := fx.freshVal(st, "mod", a.Ty)
		fx.store(st, a, v)
		return
	case *ast.IndexExpr, *ast.SliceExpr:
		var bx ast.Expr
		if ie, ok := x.(*ast.IndexExpr); ok {
			bx = ie.X
		} else {
			bx = x.(*ast.SliceExpr).X
		}
		base := env.eval(bx)
		if sl, ok := base.Ty.Underlying().(*types.Slice); ok {
			name, cs := elemComp(fx.u, sl.Elem())
			h := fx.heapGet(st, name, cs)
			row := fx.declare("modrow", "(Array Int "+fx.u.sortOf(sl.Elem())+")")
			// only the window [off, off+len) may change
			q := fx.fresh("k")
			oldRow := "(select " + h + " " + fx.arrOf(base.T) + ")"
			fx.emit(fmt.Sprintf("(assert (forall ((%s Int)) (! (=> (or (< %s (sl_off %s)) (>= %s (+ (sl_off %s) (sl_len %s)))) (= (select %s %s) (select %s %s))) :pattern ((select %s %s)))))",
				q, q, base.T, q, base.T, base.T, row, q, oldRow, q, row, q))
			fx.heapSet(st, name, cs, "(store "+h+" "+fx.arrOf(base.T)+" "+row+")")
			return
		}
		if mt, ok := base.Ty.Underlying().(*types.Map); ok {
			hn, hs, vn, vs := fx.mapComps(mt.Key(), mt.Elem())
			h := fx.heapGet(st, hn, hs)
			fx.heapSet(st, hn, hs, "(store "+h+" "+base.T+" "+fx.declare("modmh", "(Array "+fx.u.sortOf(mt.Key())+" Bool)")+")")
			hv := fx.heapGet(st, vn, vs)
			fx.heapSet(st, vn, vs, "(store "+hv+" "+base.T+" "+fx.declare("modmv", "(Array "+fx.u.sortOf(mt.Key())+" "+fx.u.sortOf(mt.Elem())+")")+")")
			l := fx.heapGet(st, "ML$len", "(Array Int Int)")
			nl := fx.declare("modml", "Int")
			fx.emit("(assert (>= " + nl + " 0))")
			fx.heapSet(st, "ML$len", "(Array Int Int)", "(store "+l+" "+base.T+" "+nl+")")
			return
		}
	case *ast.CallExpr:
		// fieldof(T, a.b): the field component of every object of type T
		if id, ok := x.Fun.(*ast.Ident); ok && id.Name == "fieldof" && len(x.Args) == 2 {
			if c, cs, ok := fx.fieldComp(env, x.Args[0], x.Args[1]); ok {
				fx.heapGet(st, c, cs)
				fx.havocComp(st, c)
				return
			}
		}
		// ghost(x): ghost component at x
		if id, ok := x.Fun.(*ast.Ident); ok {
			if g, ok := fx.eng.specs.Ghosts[id.Name]; ok {
				h := fx.heapGet(st, "G$"+g.Name, g.Sort)
				if len(x.Args) == 0 {
					fx.havocComp(st, "G$"+g.Name)
					return
				}
				a := env.eval(x.Args[0])
				at := a.T
				if at == "" {
					at, _ = fx.ptrTerm(st, a)
				}
				_, inner := arraySorts(fx.theorySort(g.Sort))
				fx.heapSet(st, "G$"+g.Name, g.Sort, "(store "+h+" "+at+" "+fx.declare("modg", inner)+")")
				return
			}
		}
	case *ast.Ident:
		if g, ok := fx.eng.specs.Ghosts[x.Name]; ok {
			fx.heapGet(st, "G$"+g.Name, g.Sort)
			fx.havocComp(st, "G$"+g.Name)
			return
		}
		if env.pkg != nil {
			if obj, ok := env.pkg.Scope().Lookup(x.Name).(*types.Var); ok {
				if g := fx.eng.globalFor(obj); g != nil {
					fx.heapGet(st, globComp(g), fx.u.sortOf(deref(g.Type())))
					fx.havocComp(st, globComp(g))
					return
				}
			}
		}
	}
	fx.clauseErrs = append(fx.clauseErrs, "cannot interpret modifies target "+text)
}

// ---- returns ----

func (fx *FuncCtx) atReturn(st *State, ins *ssa.Return, vals []*Val) {
	if fx.specMode {
		var v *Val
		if len(vals) == 1 {
			v = vals[0]
		} else {
			v = &Val{Tup: vals}
		}
		fx.specRets = append(fx.specRets, specRet{cond: st.R, v: v})
		return
	}
	fx.rets = append(fx.rets, &retPoint{st: st.clone(), vals: vals, ins: ins})
	k := len(fx.rets)
	fx.coverProbe(st, fmt.Sprintf("ret%d", k), "true")
	if fx.ct == nil {
		return
	}
	env := fx.clauseEnv(st, fx.entryAfterReq, vals)
	if len(vals) == 0 {
		env.vars["ret0"] = nil
		delete(env.vars, "ret0")
	}
	env.fn = nil
	for _, c := range fx.ct.RetHints {
		henv := fx.clauseEnv(st, fx.entryAfterReq, vals)
		henv.fn = fx.fn
		henv.at = fx.curBlock
		if !henv.localsInScope(c.Expr) {
			// the lemma names locals that do not exist on this return path: it does not apply here
			continue
		}
		t := fx.evalGoal(c, henv)
		ob := fx.oblige(st, "hint", fmt.Sprintf("hint:%s@ret%d", c.Label, k), t, ins.Pos(), false)
		fx.tagClause(ob, c)
		henv2 := fx.clauseEnv(st, fx.entryAfterReq, vals)
		henv2.fn = fx.fn
		henv2.at = fx.curBlock
		fx.emit("(assert " + imp(st.R, fx.evalClause(c, henv2)) + fmt.Sprintf(") ;@hyp:hint.%s@ret%d", c.Label, k))
	}
	for _, c := range fx.ct.Ensures {
		t := fx.evalGoal(c, env)
		label := c.Label
		if c.Alt != "" {
			label = strings.ReplaceAll(c.Alt, "/", ".") + "." + c.Label
		}
		ob := fx.oblige(st, "post", fmt.Sprintf("post:%s@ret%d", label, k), t, ins.Pos(), false)
		fx.tagClause(ob, c)
		if ob != nil {
			ob.AltGrp = c.Alt
		}
	}
	fx.frameCheck(st, k, ins.Pos())
	fx.refineCheck(st, k, ins.Pos(), vals)
}

// refineCheck: `refines Iface.Method l1 l2 ...` — the listed ensures clauses of
// the interface contract must hold at every return of the implementation.
func (fx *FuncCtx) refineCheck(st *State, k int, pos token.Pos, vals []*Val) {
	ct := fx.ct
	if len(ct.Refines) == 0 {
		return
	}
	ik := ct.Refines[0]
	ict := fx.eng.specs.Contracts["iface:"+ik]
	if ict == nil {
		fx.clauseErrs = append(fx.clauseErrs, "refines: no interface contract "+ik)
		return
	}
	want := map[string]bool{}
	for _, l := range ct.Refines[1:] {
		want[l] = true
	}
	vars := map[string]*Val{}
	// positional mapping: receiver -> self, parameters by position to the interface method's names
	var inames []string
	if m := fx.eng.ifaceMethod(ik); m != nil {
		inames = append([]string{"self"}, sigNames(m.Type().(*types.Signature), "")...)
	}
	for i, p := range fx.fn.Params {
		v := fx.params[p.Name()]
		if i == 0 {
			vars["self"] = fx.makeIface(st, v, types.NewInterfaceType(nil, nil))
			continue
		}
		if i < len(inames) {
			vars[inames[i]] = v
		}
		vars[p.Name()] = v
	}
	for i, r := range vals {
		vars[fmt.Sprintf("ret%d", i)] = r
	}
	env := &Env{fx: fx, st: st, old: fx.entryAfterReq, vars: vars, pkg: fx.eng.pkgOfContract(ict, nil), errs: &fx.clauseErrs}
	for _, c := range ict.Ensures {
		if len(want) > 0 && !want[c.Label] {
			continue
		}
		t := fx.evalGoal(c, env)
		ob := fx.oblige(st, "refine", fmt.Sprintf("refine:%s.%s@ret%d", ik, c.Label, k), t, pos, false)
		if ob != nil {
			ob.Expr = "refinement of " + ik + ": " + c.Text
			ob.Tags = ct.Props
		}
	}
}

// frameCheck generates frame obligations for an explicit modifies clause.
func (fx *FuncCtx) frameCheck(st *State, k int, pos token.Pos) {
	ct := fx.ct
	if ct == nil || !ct.ModSet || ct.ModAll {
		return
	}
	entry := fx.entryAfterReq
	if st.Base != entry.Base {
		ob := fx.oblige(st, "frame", fmt.Sprintf("frame:heap@ret%d", k), "false", pos, false)
		if ob != nil {
			ob.Expr = "function with a modifies clause calls code with unknown effects"
		}
		return
	}
	// allowed locations per component
	allowed := map[string][]string{} // comp -> refs (terms) that may change; "*" = whole component
	envPre := fx.clauseEnv(entry, entry, nil)
	envPre.fn = nil
	probe := entry.clone()
	for i, m := range ct.Modifies {
		before := map[string]string{}
		for c, t := range probe.Heap {
			before[c] = t
		}
		s2 := probe.clone()
		nLines := len(fx.lines)
		fx.havocLocation(s2, envPre.with(probe), m, ct.ModText[i])
		// find which comps changed and at which reference: re-derive from the expression
		ref := fx.modRef(envPre.with(probe), m)
		for c, t := range s2.Heap {
			if before[c] != t {
				allowed[c] = append(allowed[c], ref)
			}
		}
		_ = nLines // probe output stays: it may contain declarations later code relies on
	}
	comps := make([]string, 0, len(st.Heap))
	for c := range st.Heap {
		if ct.ModGoHeap && !strings.HasPrefix(c, "G$") {
			continue
		}
		comps = append(comps, c)
	}
	sort.Strings(comps)
	for _, c := range comps {
		if strings.HasPrefix(c, "RV$") || (strings.HasPrefix(c, "G$br_src") || logGhost(c)) || strings.HasPrefix(c, "G$hdr_") {
			continue // iteration bookkeeping; the source slice of freshly created readers
		}
		now := st.Heap[c]
		was, ok := entry.Heap[c]
		if !ok {
			was = fx.baseLookup(entry.Base, c)
		}
		if now == was {
			continue
		}
		cs := fx.compSort[c]
		var goal string
		if !strings.HasPrefix(cs, "(Array Int ") {
			if len(allowed[c]) > 0 {
				continue
			}
			goal = "(= " + now + " " + was + ")"
		} else {
			conds := []string{"(< 0 x!f)", "(<= x!f " + entry.Alloc + ")"}
			whole := false
			for _, r := range allowed[c] {
				if r == "*" {
					whole = true
				} else {
					conds = append(conds, "(not (= x!f "+r+"))")
				}
			}
			if whole {
				continue
			}
			goal = "(forall ((x!f Int)) " + imp(and(conds...), "(= (select "+now+" x!f) (select "+was+" x!f))") + ")"
		}
		ob := fx.oblige(st, "frame", fmt.Sprintf("frame:%s@ret%d", c, k), goal, pos, false)
		if ob != nil {
			ob.Expr = "frame: " + c + " changed outside the modifies clause"
		}
	}
}

// modRef returns the reference term whose component row a modifies entry names ("*" for whole components).
func (fx *FuncCtx) modRef(env *Env, m ast.Expr) string {
	switch x := m.(type) {
	case *ast.SelectorExpr:
		base := env.eval(x.X)
		a := fx.asAddr(base)
		if a.Kind == AField || a.Kind == ACell {
			return a.Base
		}
	case *ast.StarExpr:
		base := env.eval(x.X)
		a := fx.asAddr(base)
		if a.Kind == AField || a.Kind == ACell {
			return a.Base
		}
	case *ast.IndexExpr:
		base := env.eval(x.X)
		if _, ok := base.Ty.Underlying().(*types.Slice); ok {
			return fx.arrOf(base.T)
		}
		return base.T
	case *ast.SliceExpr:
		base := env.eval(x.X)
		if _, ok := base.Ty.Underlying().(*types.Slice); ok {
			return fx.arrOf(base.T)
		}
		return base.T
	case *ast.CallExpr:
		if id, ok := x.Fun.(*ast.Ident); ok && id.Name == "fieldof" {
			return "*"
		}
		if len(x.Args) > 0 {
			a := env.eval(x.Args[0])
			if a.T != "" {
				return a.T
			}
			t, _ := fx.ptrTerm(env.st, a)
			return t
		}
	}
	return "*"
}

// ---- defers ----

func (fx *FuncCtx) runDefers(st *State) {
	for i := len(st.Defers) - 1; i >= 0; i-- {
		d := st.Defers[i]
		if d.flag == "false" {
			continue
		}
		c := &d.instr.Call
		args := d.args
		var fv *Val
		if c.IsInvoke() || !isStaticCall(c) {
			fv = args[0]
			args = args[1:]
		}
		if d.flag == "true" {
			fx.callWith(st, c, fv, args, d.instr, c.Signature().Results(), d.instr.Pos())
			continue
		}
		taken := st.clone()
		taken.R = fx.define("R", "Bool", and(st.R, d.flag))
		fx.callWith(taken, c, fv, args, d.instr, c.Signature().Results(), d.instr.Pos())
		skipped := st.clone()
		m := fx.merge([]edge{{cond: taken.R, st: taken}, {cond: and(st.R, not(d.flag)), st: skipped}})
		defers := st.Defers
		*st = *m
		st.Defers = defers
	}
	st.Defers = nil
}

// ---- spec functions (pure Go in the contracts file), inlined ----

type specRet struct {
	cond string
	v    *Val
}

func (fx *FuncCtx) inlineSpec(fn *ssa.Function, args []*Val, heapFrom *State) *Val {
	if fx.specDepth > 8 {
		fx.clauseErrs = append(fx.clauseErrs, "spec function recursion: "+fn.Name())
		return &Val{T: "false", Ty: boolT}
	}
	fx.specDepth++
	defer func() { fx.specDepth-- }()
	savedMode, savedRets := fx.specMode, fx.specRets
	savedBlock, savedEdges, savedPreds := fx.curBlock, fx.curEdges, fx.curEdgePreds
	fx.specMode, fx.specRets = true, nil
	defer func() {
		fx.specMode, fx.specRets = savedMode, savedRets
		fx.curBlock, fx.curEdges, fx.curEdgePreds = savedBlock, savedEdges, savedPreds
	}()
	for i, p := range fn.Params {
		if i < len(args) {
			a := *args[i]
			if a.Ty == nil || isUntyped(a.Ty) {
				a.Ty = p.Type()
			}
			fx.vals[p] = &a
		}
	}
	entry := heapFrom.clone()
	entry.R = "true"
	entry.Cells = map[*ssa.Alloc]*Val{}
	entry.Defers = nil
	endState := map[*ssa.BasicBlock]*State{}
	for _, b := range rpo(fn) {
		var st *State
		if b == fn.Blocks[0] {
			st = entry
		} else {
			var edges []edge
			var preds []*ssa.BasicBlock
			for _, p := range b.Preds {
				if isBackEdge(p, b) {
					fx.clauseErrs = append(fx.clauseErrs, "spec function "+fn.Name()+" contains a loop")
					return &Val{T: "false", Ty: boolT}
				}
				if ps, ok := endState[p]; ok {
					edges = append(edges, edge{cond: fx.edgeCond(ps, p, b), st: ps})
					preds = append(preds, p)
				}
			}
			if len(edges) == 0 {
				continue
			}
			fx.curEdges, fx.curEdgePreds = edges, preds
			st = fx.merge(edges)
		}
		fx.curBlock = b
		for _, ins := range b.Instrs {
			fx.step(st, ins)
		}
		endState[b] = st
	}
	rets := fx.specRets
	if len(rets) == 0 {
		return &Val{T: "false", Ty: boolT, Bad: "spec function without return"}
	}
	res := rets[len(rets)-1].v
	t := res.T
	for i := len(rets) - 2; i >= 0; i-- {
		t = ite(rets[i].cond, rets[i].v.T, t)
	}
	return &Val{T: t, Ty: fn.Signature.Results().At(0).Type()}
}

func isUntyped(t types.Type) bool {
	b, ok := t.(*types.Basic)
	return ok && b.Info()&types.IsUntyped != 0
}

// arraySorts splits "(Array K V)" into K and V.
func arraySorts(s string) (string, string) {
	if !strings.HasPrefix(s, "(Array ") {
		return "", s
	}
	inner := s[len("(Array ") : len(s)-1]
	d := 0
	for i := 0; i < len(inner); i++ {
		switch inner[i] {
		case '(':
			d++
		case ')':
			d--
		case ' ':
			if d == 0 {
				return inner[:i], strings.TrimSpace(inner[i+1:])
			}
		}
	}
	return inner, ""
}

// unchangedGuard matches imp(<cond>, unchanged()).
func unchangedGuard(x ast.Expr) (ast.Expr, bool) {
	c, ok := x.(*ast.CallExpr)
	if !ok || len(c.Args) != 2 {
		return nil, false
	}
	if id, ok := c.Fun.(*ast.Ident); !ok || id.Name != "imp" {
		return nil, false
	}
	u, ok := c.Args[1].(*ast.CallExpr)
	if !ok || len(u.Args) != 0 {
		return nil, false
	}
	if id, ok := u.Fun.(*ast.Ident); !ok || id.Name != "unchanged" {
		return nil, false
	}
	return c.Args[0], true
}

// restoreWhen makes the post-state equal to the pre-state (except ghost stream
// cursors) on the paths where cond holds.
func (fx *FuncCtx) restoreWhen(st, pre *State, cond string) {
	keep := st.clone()
	rest := pre.clone()
	for c, t := range st.Heap {
		if strings.HasPrefix(c, "G$rd_pos") || strings.HasPrefix(c, "G$it_") || strings.HasPrefix(c, "G$put_") || strings.HasPrefix(c, "G$part_") || strings.HasPrefix(c, "G$lp_") || strings.HasPrefix(c, "G$dm_") || (strings.HasPrefix(c, "G$br_src") || logGhost(c)) || strings.HasPrefix(c, "G$hdr_") {
			rest.Heap[c] = t
		}
	}
	rest.Cells = st.Cells
	rest.Alloc = st.Alloc
	rest.Defers = st.Defers
	if st.Base != pre.Base {
		// the callee's frame was the whole heap: keep cursor components of the new epoch out of reach
		rest.Base = pre.Base
	}
	m := fx.merge([]edge{{cond: and(st.R, cond), st: rest}, {cond: and(st.R, not(cond)), st: keep}})
	r := st.R
	defers := st.Defers
	*st = *m
	st.R = r
	st.Defers = defers
}

// fieldComp resolves fieldof(T, f.g) to a heap component.
func (fx *FuncCtx) fieldComp(env *Env, tx, fxp ast.Expr) (string, string, bool) {
	t := env.typeExpr(tx)
	if t == nil {
		return "", "", false
	}
	var names []string
	var walk func(e ast.Expr) bool
	walk = func(e ast.Expr) bool {
		switch n := e.(type) {
		case *ast.Ident:
			names = append(names, n.Name)
			return true
		case *ast.SelectorExpr:
			if !walk(n.X) {
				return false
			}
			names = append(names, n.Sel.Name)
			return true
		}
		return false
	}
	if !walk(fxp) {
		return "", "", false
	}
	cur := t
	var path []int
	for _, n := range names {
		st, ok := cur.Underlying().(*types.Struct)
		if !ok {
			return "", "", false
		}
		found := false
		for i := 0; i < st.NumFields(); i++ {
			if st.Field(i).Name() == n {
				path = append(path, i)
				cur = st.Field(i).Type()
				found = true
				break
			}
		}
		if !found {
			return "", "", false
		}
	}
	return compName(t, path), "(Array Int " + fx.u.sortOf(cur) + ")", true
}

// localsInScope: every identifier of x that names a local of the function is
// allocated on all paths to the current block.
func (e *Env) localsInScope(x ast.Expr) bool {
	ok := true
	ast.Inspect(x, func(n ast.Node) bool {
		id, is := n.(*ast.Ident)
		if !is || e.fn == nil {
			return true
		}
		name := id.Name
		if i := strings.LastIndex(name, "__"); i > 0 {
			name = name[:i]
		}
		declared := false
		for _, b := range e.fn.Blocks {
			for _, ins := range b.Instrs {
				if a, isA := ins.(*ssa.Alloc); isA && a.Comment == name {
					declared = true
				}
			}
		}
		if declared {
			a := e.lookupLocal(id.Name)
			if a == nil {
				ok = false
			} else if !a.Heap {
				if _, has := e.st.Cells[a]; !has {
					ok = false // not assigned on this path
				}
			}
		}
		return true
	})
	return ok
}

// plainVariadic recognises a variadic ...interface{} argument built at the call site from a
// fixed number of values of method-less basic types (integers, strings, booleans). For those
// the formatted text is a function of the interface values alone, so the call can be modelled
// as an uninterpreted function of the format and the individual operands.
func (fx *FuncCtx) plainVariadic(st *State, a ssa.Value, v *Val) ([]*Val, bool) {
	if c, ok := a.(*ssa.Const); ok && c.IsNil() {
		return nil, true
	}
	sl, ok := a.(*ssa.Slice)
	if !ok || sl.Low != nil || sl.High != nil || sl.Max != nil {
		return nil, false
	}
	al, ok := sl.X.(*ssa.Alloc)
	if !ok {
		return nil, false
	}
	pt, ok := al.Type().Underlying().(*types.Pointer)
	if !ok {
		return nil, false
	}
	arr, ok := pt.Elem().Underlying().(*types.Array)
	if !ok || arr.Len() > 6 {
		return nil, false
	}
	isStr := false
	if b, ok := arr.Elem().Underlying().(*types.Basic); ok && b.Kind() == types.String {
		isStr = true // ...string: the operands are stored as they are
	} else if it, ok := arr.Elem().Underlying().(*types.Interface); !ok || it.NumMethods() != 0 {
		return nil, false
	}
	ops := make([]ssa.Value, arr.Len())
	for _, r := range *al.Referrers() {
		switch r := r.(type) {
		case *ssa.Slice:
			if r != sl {
				return nil, false
			}
		case *ssa.IndexAddr:
			ic, ok := r.Index.(*ssa.Const)
			if !ok {
				return nil, false
			}
			k, ok := constant.Int64Val(ic.Value)
			if !ok || k < 0 || k >= arr.Len() {
				return nil, false
			}
			for _, rr := range *r.Referrers() {
				s, ok := rr.(*ssa.Store)
				if !ok || s.Addr != r || ops[k] != nil {
					return nil, false
				}
				if isStr {
					ops[k] = s.Val
					continue
				}
				mi, ok := s.Val.(*ssa.MakeInterface)
				if !ok {
					return nil, false
				}
				t := mi.X.Type()
				switch u := t.Underlying().(type) {
				case *types.Basic:
				case *types.Slice:
					// a byte slice is rendered from its content: passed as a content snapshot
					if b, ok := u.Elem().Underlying().(*types.Basic); !ok || b.Kind() != types.Uint8 {
						return nil, false
					}
				default:
					return nil, false
				}
				if types.NewMethodSet(t).Len() != 0 || types.NewMethodSet(types.NewPointer(t)).Len() != 0 {
					return nil, false
				}
				ops[k] = mi.X
			}
		case *ssa.DebugRef:
		default:
			return nil, false
		}
	}
	var out []*Val
	for _, o := range ops {
		if o == nil {
			return nil, false
		}
		v := fx.val(st, o)
		if v == nil || v.T == "" {
			return nil, false
		}
		out = append(out, v)
	}
	return out, true
}

// restoredGuard recognises imp(cond, restored(g1, ..., gn)) over ghost names.
func restoredGuard(x ast.Expr) (ast.Expr, []string, bool) {
	c, ok := x.(*ast.CallExpr)
	if !ok || len(c.Args) != 2 {
		return nil, nil, false
	}
	if id, ok := c.Fun.(*ast.Ident); !ok || id.Name != "imp" {
		return nil, nil, false
	}
	u, ok := c.Args[1].(*ast.CallExpr)
	if !ok || len(u.Args) == 0 {
		return nil, nil, false
	}
	if id, ok := u.Fun.(*ast.Ident); !ok || id.Name != "restored" {
		return nil, nil, false
	}
	var names []string
	for _, a := range u.Args {
		id, ok := a.(*ast.Ident)
		if !ok {
			return nil, nil, false
		}
		names = append(names, id.Name)
	}
	return c.Args[0], names, true
}

// restoreGhostsWhen sets each named ghost to ite(cond, its value before the call, its current value).
func (fx *FuncCtx) restoreGhostsWhen(st, pre *State, cond string, names []string) {
	for _, n := range names {
		g, ok := fx.eng.specs.Ghosts[n]
		if !ok {
			fx.clauseErrs = append(fx.clauseErrs, "restored: unknown ghost "+n)
			continue
		}
		comp := "G$" + n
		was := fx.heapGet(pre, comp, g.Sort)
		now := fx.heapGet(st, comp, g.Sort)
		if was == now {
			continue
		}
		h := fx.declare("rb", fx.theorySort(g.Sort))
		fx.emit("(assert (= " + h + " (ite " + cond + " " + was + " " + now + ")))")
		st.Heap[comp] = h
	}
}

// logGhost: ghost components that record what a library call was given (io.Copy's log) or describe
// a value created by a library call (the source of a LimitReader, the file behind an open handle).
// Like br_src they are not part of any function's frame.
func logGhost(c string) bool {
	for _, p := range []string{"G$cp_", "G$lim_", "G$mw_", "G$f_fs", "G$f_path", "G$hs_", "G$bp_"} {
		if strings.HasPrefix(c, p) {
			return true
		}
	}
	return false
}
